//! C02 — signature soundness: only the signed content, under the exact hashed metadata and the
//! signer's key, verifies.
//!
//! Method: objects that verify are built with the library's own signing APIs; ONE perturbation
//! is applied to a serialised artefact (content, signature packet, key packet, user id, one-pass
//! packet, whole message, whole certificate); the artefact is re-parsed and EVERY applicable
//! verification entry point must return `Err` (a parse failure is the required error too).
//! Each perturbed bit is classified with the independent reference parsers (`rfc::sig`,
//! `rfc::key`, `rfc::frame`, `rfc::armor`): only SEMANTIC regions are required to fail
//! (`Req::Must`), non-semantic ones (unhashed area, framing, MPI bit-count prefixes, advisory
//! one-pass issuer, ...) are exercised for no-panic only (`Req::Either`).

use std::io::Read;

use bytes::Bytes;
use pgp::composed::{
    CleartextSignedMessage, Deserializable, DetachedSignature, Message, MessageBuilder,
    SignedPublicKey, SignedPublicSubKey, SignedSecretKey, SubpacketConfig, VerificationResult,
};
use pgp::crypto::hash::HashAlgorithm;
use pgp::packet::{
    KeyFlags, PacketHeader, PublicKey, PublicSubkey, Signature, SignatureConfig, SignatureType,
    Subpacket, SubpacketData, UserAttribute, UserId,
};
use pgp::ser::Serialize;
use pgp::types::{
    KeyDetails, Password, SignedUser, SignedUserAttribute, Tag, Timestamp, VerifyingKey,
};
use rand::Rng;
use rand_chacha::ChaCha8Rng;
use serde_json::{json, Value};

use crate::core::{describe_case, hexs, Ctx};
use crate::rfc;
use crate::rfc::frame::{deframe, frame, LenForm, RawPacket};
use crate::rfc::key::RefPub;
use crate::rfc::sig::{encode_subpacket, parse_sig, parse_subpackets, RefSig};
use crate::zoo::{self, Alg, Spec};

const TS: u32 = 1_700_000_100;

// ==========================================================================================
// perturbation primitives

#[derive(Clone, Debug)]
enum Op {
    Xor(usize, u8),
    Set(usize, u8),
    Del(usize, usize),
    Ins(usize, Vec<u8>),
    Replace(Vec<u8>),
    /// replace `n` octets at `pos` by the given octets
    Splice(usize, usize, Vec<u8>),
}

impl Op {
    fn apply(&self, b: &[u8]) -> Vec<u8> {
        let mut v = b.to_vec();
        match self {
            Op::Xor(p, m) => v[*p] ^= *m,
            Op::Set(p, x) => v[*p] = *x,
            Op::Del(p, n) => {
                v.drain(*p..*p + *n);
            }
            Op::Ins(p, x) => {
                let t = v.split_off(*p);
                v.extend_from_slice(x);
                v.extend(t);
            }
            Op::Replace(x) => v = x.clone(),
            Op::Splice(p, n, x) => {
                let t = v.split_off(*p + *n);
                v.truncate(*p);
                v.extend_from_slice(x);
                v.extend(t);
            }
        }
        v
    }
    fn pos(&self) -> usize {
        match self {
            Op::Xor(p, _) | Op::Set(p, _) | Op::Del(p, _) | Op::Ins(p, _) | Op::Splice(p, _, _) => *p,
            Op::Replace(_) => 0,
        }
    }
    fn json(&self) -> Value {
        match self {
            Op::Xor(p, m) => json!({"op": "xor", "at": p, "mask": m}),
            Op::Set(p, m) => json!({"op": "set", "at": p, "value": m}),
            Op::Del(p, n) => json!({"op": "del", "at": p, "n": n}),
            Op::Ins(p, x) => json!({"op": "ins", "at": p, "bytes": hex::encode(x)}),
            Op::Replace(x) => json!({"op": "replace", "with": hexs(x)}),
            Op::Splice(p, n, x) => json!({"op": "splice", "at": p, "del": n, "bytes": hex::encode(x)}),
        }
    }
}

/// Is the perturbed artefact required to be rejected?
#[derive(Clone, Copy, PartialEq, Eq, Debug)]
enum Req {
    /// semantic bit: every verify entry point must return Err
    Must,
    /// non-semantic: verdict not judged (no-panic only)
    Either,
    /// bit of an embedded primary-key-binding signature that lives in the UNHASHED area of a
    /// subkey binding: required to fail for entry points that check back signatures
    /// (`verify_bindings` of a signing-capable subkey), "either" for the others
    Backsig,
}

#[derive(Clone, Debug)]
struct Pert {
    /// coarse region (coverage cells, tallies)
    region: &'static str,
    /// fine class (goes into the violation signature)
    detail: String,
    req: Req,
    op: Op,
}

fn add_flips(
    out: &mut Vec<Pert>,
    region: &'static str,
    req: Req,
    start: usize,
    len: usize,
    detail: &dyn Fn(usize) -> String,
) {
    for i in 0..len {
        for b in 0..8 {
            out.push(Pert {
                region,
                detail: detail(i),
                req,
                op: Op::Xor(start + i, 1 << b),
            });
        }
    }
}

fn add_values(out: &mut Vec<Pert>, region: &'static str, req: Req, pos: usize, orig: u8) {
    for v in 0..=255u8 {
        if v != orig {
            out.push(Pert {
                region,
                detail: region.to_string(),
                req,
                op: Op::Set(pos, v),
            });
        }
    }
}

/// thorough tier: every byte that has a `Must` single-bit flip additionally gets `n` random
/// other values
fn add_byte_subs(out: &mut Vec<Pert>, orig: &[u8], n: usize, rng: &mut ChaCha8Rng) {
    if n == 0 {
        return;
    }
    let mut extra = vec![];
    for p in out.iter() {
        if let (Req::Must, Op::Xor(pos, 1)) = (p.req, &p.op) {
            for _ in 0..n {
                let mut v: u8 = rng.gen();
                if v == orig[*pos] {
                    v = v.wrapping_add(0x55);
                }
                extra.push(Pert {
                    region: p.region,
                    detail: p.detail.clone(),
                    req: Req::Must,
                    op: Op::Set(*pos, v),
                });
            }
        }
    }
    out.extend(extra);
}

/// per-byte class of a subpacket area: `sp<type>.len|type|body`
fn area_detail(area: &[u8], prefix: &str) -> Vec<String> {
    let mut d = vec![format!("{prefix}raw"); area.len()];
    if let Ok(sps) = parse_subpackets(area) {
        for sp in sps {
            let lo = sp.len_octets as usize;
            for i in 0..sp.total_len {
                let part = if i < lo {
                    "len"
                } else if i == lo {
                    "type"
                } else {
                    "body"
                };
                d[sp.offset + i] = format!("{prefix}sp{}.{}", sp.typ, part);
            }
        }
    }
    d
}

/// per-octet class of a user attribute packet body (one subpacket; image header of 16 octets)
fn attr_detail(body: &[u8]) -> Vec<String> {
    let mut d = vec!["attr.raw".to_string(); body.len()];
    let lo = match body.first() {
        Some(o) if *o < 192 => 1,
        Some(o) if *o < 255 => 2,
        Some(_) => 5,
        None => return d,
    };
    for (i, x) in d.iter_mut().enumerate() {
        *x = if i < lo {
            "attr.splen"
        } else if i == lo {
            "attr.sptype"
        } else if body.get(lo) == Some(&1) && i < lo + 1 + 2 {
            "attr.image-header-len"
        } else if body.get(lo) == Some(&1) && i < lo + 1 + 4 {
            "attr.image-header-version-format"
        } else if body.get(lo) == Some(&1) && i < lo + 1 + 16 {
            "attr.image-header-reserved"
        } else {
            "attr.data"
        }
        .to_string();
    }
    d
}

/// Perturbations of the algorithm specific signature value.
fn sigval_perts(
    out: &mut Vec<Pert>,
    alg: u8,
    off: usize,
    data: &[u8],
    region: &'static str,
    req: Req,
    prefix: &str,
) {
    let either = |out: &mut Vec<Pert>, s: usize, l: usize, what: &str| {
        let w = format!("{prefix}{what}");
        add_flips(out, region, Req::Either, s, l, &|_| w.clone());
    };
    let nmpi = match alg {
        1 | 3 => 1,
        16 | 17 | 19 | 22 => 2,
        _ => 0,
    };
    if nmpi > 0 {
        let mut p = 0usize;
        for k in 0..nmpi {
            let Some((val, np)) = rfc::read_mpi(data, p) else {
                either(out, off + p, data.len() - p, "sigval.unparsed");
                return;
            };
            // the two-octet bit count: a change that keeps the octet count leaves the integer
            // unchanged, one that does not shifts the framing: verdict not judged
            either(out, off + p, 2, "sigval.mpi-len");
            let w = format!("{prefix}sigval.mpi{k}");
            add_flips(out, region, req, off + p + 2, val.len(), &|_| w.clone());
            // the same integer plus a multiple of 2^(8*len): well-formed MPI (bit count fixed up) of a
            // different value, 1, 2 and 40 octets longer
            for grow in [1usize, 2, 40] {
                let mut nv = vec![0x01u8];
                nv.extend(std::iter::repeat(0xA5u8).take(grow - 1));
                nv.extend_from_slice(val);
                let enc = rfc::mpi(&nv);
                out.push(Pert { region, detail: format!("{prefix}sigval.mpi{k}.grown"), req, op: Op::Splice(off + p, np - p, enc) });
            }
            // the integer without its most significant octet (well-formed, different value)
            if val.len() > 1 {
                let enc = rfc::mpi(&val[1..]);
                if enc.len() > 2 && val[0] != 0 {
                    out.push(Pert { region, detail: format!("{prefix}sigval.mpi{k}.shrunk"), req, op: Op::Splice(off + p, np - p, enc) });
                }
            }
            p = np;
        }
        if p < data.len() {
            either(out, off + p, data.len() - p, "sigval.trailing");
        }
        return;
    }
    let native = match alg {
        27 => 64,
        28 => 114,
        _ => 0,
    };
    if native > 0 && data.len() == native {
        let w = format!("{prefix}sigval.native");
        add_flips(out, region, req, off, native, &|_| w.clone());
    } else {
        either(out, off, data.len(), "sigval.unknown-alg");
    }
}

struct SigOpts {
    /// all 255 other values of the four header octets (else: single-bit flips)
    full_header: bool,
    /// extra random byte values per semantic byte
    bytesubs: usize,
}

/// All perturbations of one signature packet body, classified by the reference parser.
fn sig_perts(body: &[u8], o: &SigOpts, rng: &mut ChaCha8Rng) -> Result<Vec<Pert>, String> {
    let rs = parse_sig(body)?;
    if rs.version != 4 && rs.version != 6 {
        return Err(format!("signature version {}", rs.version));
    }
    if rs.encode() != body {
        return Err("reference re-encoding differs".into());
    }
    let w = if rs.version == 4 { 2 } else { 4 };
    let mut out = vec![];
    for (i, name) in ["version", "type", "pubalg", "hashalg"].into_iter().enumerate() {
        if o.full_header {
            add_values(&mut out, name, Req::Must, i, body[i]);
        } else {
            add_flips(&mut out, name, Req::Must, i, 1, &|_| name.to_string());
        }
    }
    add_flips(&mut out, "hashed-len", Req::Must, 4, w, &|_| "hashed-len".into());
    let hd = area_detail(&rs.hashed, "hashed.");
    let soft = embedded_mpi_prefix_octets(&rs.hashed);
    for i in 0..rs.hashed.len() {
        let (req, d) = if soft.contains(&i) {
            (Req::Either, "hashed.sp32.embedded-mpi-len".to_string())
        } else {
            (Req::Must, hd[i].clone())
        };
        add_flips(&mut out, "hashed", req, rs.off_hashed + i, 1, &|_| d.clone());
    }
    // the same subpackets with the length of one of them written in the five-octet form (area count and packet
    // length follow): other octets in the hashed area than the ones that were signed
    if let Ok(sps) = parse_subpackets(&rs.hashed) {
        for sp in sps {
            let lo = sp.len_octets as usize;
            if lo == 5 {
                continue;
            }
            let l = (sp.total_len - lo) as u32;
            let mut h2 = rs.hashed[..sp.offset].to_vec();
            h2.push(255);
            h2.extend_from_slice(&l.to_be_bytes());
            h2.extend_from_slice(&rs.hashed[sp.offset + lo..sp.offset + sp.total_len]);
            h2.extend_from_slice(&rs.hashed[sp.offset + sp.total_len..]);
            if rs.version == 4 && h2.len() > 0xFFFF {
                continue;
            }
            let mut r2 = rs.clone();
            r2.hashed = h2;
            out.push(Pert { region: "hashed-reencode", detail: format!("hashed.sp{}.len-5octet", sp.typ), req: Req::Must, op: Op::Replace(r2.encode()) });
        }
    }
    add_flips(&mut out, "unhashed-len", Req::Either, rs.off_unhashed - w, w, &|_| {
        "unhashed-len".into()
    });
    unhashed_perts(&mut out, &rs);
    add_flips(&mut out, "left16", Req::Must, rs.off_left16, 2, &|_| "left16".into());
    if rs.version == 6 {
        add_flips(&mut out, "salt-len", Req::Must, rs.off_salt - 1, 1, &|_| "salt-len".into());
        add_flips(&mut out, "salt", Req::Must, rs.off_salt, rs.salt.len(), &|_| "salt".into());
    }
    sigval_perts(&mut out, rs.pub_alg, rs.off_sig, &rs.sig_data, "sigval", Req::Must, "");
    // truncation of the packet by one octet cuts the signature value
    out.push(Pert {
        region: "sig-trunc",
        detail: "sig-trunc".into(),
        req: Req::Must,
        op: Op::Del(body.len() - 1, 1),
    });
    // an appended octet is part of the value only for "rest of packet" encodings (Ed448)
    out.push(Pert {
        region: "sig-extend",
        detail: "sig-extend".into(),
        req: if rs.pub_alg == 28 { Req::Must } else { Req::Either },
        op: Op::Ins(body.len(), vec![0]),
    });
    add_byte_subs(&mut out, body, o.bytesubs, rng);
    Ok(out)
}

/// Octets (relative to the area) that are MPI bit-count prefixes of the signature value of an
/// embedded signature (type 32): same treatment as every other MPI bit count.
fn embedded_mpi_prefix_octets(area: &[u8]) -> Vec<usize> {
    let mut v = vec![];
    let Ok(sps) = parse_subpackets(area) else { return v };
    for sp in sps {
        if sp.typ != 32 {
            continue;
        }
        let Ok(inner) = parse_sig(&sp.body) else { continue };
        let nmpi = match inner.pub_alg {
            1 | 3 => 1,
            16 | 17 | 19 | 22 => 2,
            _ => 0,
        };
        let base = sp.offset + sp.len_octets as usize + 1 + inner.off_sig;
        let mut p = 0;
        for _ in 0..nmpi {
            let Some((_, np)) = rfc::read_mpi(&inner.sig_data, p) else { break };
            v.push(base + p);
            v.push(base + p + 1);
            p = np;
        }
    }
    v
}

/// Unhashed area: "either", except the bits of an embedded back signature (type 32), which are
/// `Req::Backsig` (classified recursively with the reference parser).
fn unhashed_perts(out: &mut Vec<Pert>, rs: &RefSig) {
    let base = rs.off_unhashed;
    let Ok(sps) = parse_subpackets(&rs.unhashed) else {
        add_flips(out, "unhashed", Req::Either, base, rs.unhashed.len(), &|_| "unhashed.raw".into());
        return;
    };
    for sp in sps {
        let s = base + sp.offset;
        let lo = sp.len_octets as usize;
        if sp.typ != 32 {
            let w = format!("unhashed.sp{}", sp.typ);
            add_flips(out, "unhashed", Req::Either, s, sp.total_len, &|_| w.clone());
            continue;
        }
        add_flips(out, "embedded", Req::Either, s, lo, &|_| "embedded.splen".into());
        for b in 0..8 {
            out.push(Pert {
                region: "embedded",
                detail: if b == 7 { "embedded.sptype.critical" } else { "embedded.sptype" }.into(),
                req: if b == 7 { Req::Either } else { Req::Backsig },
                op: Op::Xor(s + lo, 1 << b),
            });
        }
        let bs = s + lo + 1;
        let Ok(inner) = parse_sig(&sp.body) else {
            add_flips(out, "embedded", Req::Either, bs, sp.body.len(), &|_| "embedded.raw".into());
            continue;
        };
        if inner.version != 4 && inner.version != 6 {
            continue;
        }
        let w = if inner.version == 4 { 2 } else { 4 };
        for (i, name) in ["version", "type", "pubalg", "hashalg"].into_iter().enumerate() {
            let d = format!("embedded.{name}");
            add_flips(out, "embedded", Req::Backsig, bs + i, 1, &|_| d.clone());
        }
        add_flips(out, "embedded", Req::Backsig, bs + 4, w, &|_| "embedded.hashed-len".into());
        let hd = area_detail(&inner.hashed, "embedded.hashed.");
        add_flips(out, "embedded", Req::Backsig, bs + inner.off_hashed, inner.hashed.len(), &|i| {
            hd[i].clone()
        });
        add_flips(out, "embedded", Req::Either, bs + inner.off_unhashed - w, w + inner.unhashed.len(), &|_| {
            "embedded.unhashed".into()
        });
        add_flips(out, "embedded", Req::Backsig, bs + inner.off_left16, 2, &|_| "embedded.left16".into());
        if inner.version == 6 {
            add_flips(out, "embedded", Req::Backsig, bs + inner.off_salt - 1, 1, &|_| {
                "embedded.salt-len".into()
            });
            add_flips(out, "embedded", Req::Backsig, bs + inner.off_salt, inner.salt.len(), &|_| {
                "embedded.salt".into()
            });
        }
        sigval_perts(
            out,
            inner.pub_alg,
            bs + inner.off_sig,
            &inner.sig_data,
            "embedded",
            Req::Backsig,
            "embedded.",
        );
    }
}

/// Perturbations of a public key packet body (the public part of a secret key body when
/// `body` is longer than what the reference consumes).
/// `hashed`: the key is signed content (certificate-forming signatures): every field is
/// semantic. Otherwise (verifying key of a data signature) only the key material is.
fn key_perts(body: &[u8], hashed: bool, bytesubs: usize, rng: &mut ChaCha8Rng) -> Result<Vec<Pert>, String> {
    let (rp, used) = RefPub::parse_prefix(body).ok_or("reference cannot parse key")?;
    if rp.version != 4 && rp.version != 6 {
        return Err("key version".into());
    }
    let hdr = if hashed { Req::Must } else { Req::Either };
    let mut out = vec![];
    add_flips(&mut out, "key.version", hdr, 0, 1, &|_| "key.version".into());
    add_flips(&mut out, "key.created", hdr, 1, 4, &|_| "key.created".into());
    add_flips(&mut out, "key.alg", hdr, 5, 1, &|_| "key.alg".into());
    let moff = if rp.version == 6 {
        add_flips(&mut out, "key.matlen", Req::Either, 6, 4, &|_| "key.matlen".into());
        10
    } else {
        6
    };
    if moff + rp.material.len() != used {
        return Err("key material offset".into());
    }
    let m = &rp.material;
    let mut p = 0usize;
    let mut ok = true;
    let is_point = matches!(rp.alg, 18 | 19 | 22);
    let mpis = |out: &mut Vec<Pert>, p: &mut usize, n: usize, ok: &mut bool| {
        for k in 0..n {
            let Some((val, np)) = rfc::read_mpi(m, *p) else {
                *ok = false;
                return;
            };
            add_flips(out, "keymat", Req::Either, moff + *p, 2, &|_| "keymat.mpi-len".into());
            let w = format!("keymat.mpi{k}");
            // first octet of an EC point: the 0x04 / 0x40 format octet
            add_flips(out, "keymat", Req::Must, moff + *p + 2, val.len(), &|i| {
                if is_point && i == 0 { "keymat.point-format".into() } else { w.clone() }
            });
            *p = np;
        }
    };
    let oid = |out: &mut Vec<Pert>, p: &mut usize| {
        let l = m[*p] as usize;
        add_flips(out, "keymat", Req::Either, moff + *p, 1, &|_| "keymat.oid-len".into());
        add_flips(out, "keymat", Req::Must, moff + *p + 1, l, &|_| "keymat.oid".into());
        *p += 1 + l;
    };
    match rp.alg {
        1 | 2 | 3 => mpis(&mut out, &mut p, 2, &mut ok),
        16 => mpis(&mut out, &mut p, 3, &mut ok),
        17 => mpis(&mut out, &mut p, 4, &mut ok),
        19 | 22 => {
            oid(&mut out, &mut p);
            mpis(&mut out, &mut p, 1, &mut ok);
        }
        18 => {
            oid(&mut out, &mut p);
            mpis(&mut out, &mut p, 1, &mut ok);
            if ok && p + 4 == m.len() {
                add_flips(&mut out, "keymat", Req::Either, moff + p, 1, &|_| "keymat.kdf-len".into());
                add_flips(&mut out, "keymat", Req::Must, moff + p + 1, 1, &|_| "keymat.kdf-reserved".into());
                add_flips(&mut out, "keymat", Req::Must, moff + p + 2, 2, &|_| "keymat.kdf".into());
                p += 4;
            } else {
                ok = false;
            }
        }
        25 | 26 | 27 | 28 => {
            add_flips(&mut out, "keymat", Req::Must, moff, m.len(), &|_| "keymat.native".into());
            p = m.len();
        }
        _ => ok = false,
    }
    if !ok || p != m.len() {
        return Err(format!("reference cannot classify key material of alg {}", rp.alg));
    }
    add_byte_subs(&mut out, body, bytesubs, rng);
    Ok(out)
}

/// Content perturbations: every bit (contents are small), deletion / insertion of one octet at
/// every position (at most 64 in total), line-ending edits. For text signatures a variant with
/// the same canonical text is the documented equivalence and is not required to fail.
fn content_perts(content: &[u8], text: bool) -> Vec<(&'static str, Req, Vec<u8>)> {
    let mut v: Vec<(&'static str, Vec<u8>)> = vec![];
    for i in 0..content.len() {
        for b in 0..8 {
            v.push(("content", Op::Xor(i, 1 << b).apply(content)));
        }
    }
    let n = content.len();
    let step = (n / 32).max(1);
    for i in (0..n).step_by(step) {
        v.push(("content-trunc", Op::Del(i, 1).apply(content)));
        v.push(("content-extend", Op::Ins(i, vec![b'x']).apply(content)));
    }
    if n > 0 {
        v.push(("content-trunc", Op::Del(n - 1, 1).apply(content)));
        v.push(("content-trunc", vec![]));
    }
    for tail in [&b"\n"[..], b"\r\n", b"\r", b" ", b"\0", b"x"] {
        v.push(("content-extend", Op::Ins(n, tail.to_vec()).apply(content)));
        v.push(("content-extend", Op::Ins(0, tail.to_vec()).apply(content)));
    }
    if content.ends_with(b"\r\n") {
        v.push(("content-trunc", content[..n - 2].to_vec()));
    } else if content.ends_with(b"\n") {
        v.push(("content-trunc", content[..n - 1].to_vec()));
    }
    // LF <-> CRLF rewrites of the whole document
    v.push(("content-eol", rfc::canon_text(content)));
    let lf: Vec<u8> = {
        let mut o = vec![];
        let mut k = 0;
        while k < n {
            if content[k] == b'\r' && k + 1 < n && content[k + 1] == b'\n' {
                k += 1;
                continue;
            }
            o.push(content[k]);
            k += 1;
        }
        o
    };
    v.push(("content-eol", lf));
    let canon = rfc::canon_text(content);
    v.into_iter()
        .filter(|(_, c)| c != content)
        .map(|(r, c)| {
            let differs = if text { rfc::canon_text(&c) != canon } else { true };
            (r, if differs { Req::Must } else { Req::Either }, c)
        })
        .collect()
}

// ==========================================================================================
// packet level objects: one signature + the artefacts it was made over

#[derive(Clone, Copy, PartialEq, Eq, Debug)]
enum Kind {
    /// 0x00 / 0x01 over `content`, verifying key = `signer` (primary key packet)
    Data,
    /// 0x10-0x13 / 0x30 self certification of `uid` (user id) on `signer`
    CertSelf,
    /// same, made by `signer` over (`signee`, `uid`)
    CertThird,
    /// self certification of a user attribute
    AttrSelf,
    /// 0x18 / 0x28: `signer` = primary, `signee` = subkey
    SubBind,
    /// 0x19: `signer` = subkey, `signee` = primary
    PrimBind,
    /// 0x1F / 0x20 by the key over itself
    KeySelf,
    /// 0x1F / 0x20 by `signer` over `signee`
    KeyThird,
}

#[derive(Clone, Copy, PartialEq, Eq, Debug)]
enum Site {
    Sig,
    Signer,
    Signee,
    Uid,
    Content,
}

#[derive(Clone, Default)]
struct Art {
    sig: Vec<u8>,
    signer: Vec<u8>,
    signee: Vec<u8>,
    uid: Vec<u8>,
    content: Vec<u8>,
}

impl Art {
    fn with(&self, site: Site, v: Vec<u8>) -> Art {
        let mut a = self.clone();
        match site {
            Site::Sig => a.sig = v,
            Site::Signer => a.signer = v,
            Site::Signee => a.signee = v,
            Site::Uid => a.uid = v,
            Site::Content => a.content = v,
        }
        a
    }
    fn get(&self, site: Site) -> &[u8] {
        match site {
            Site::Sig => &self.sig,
            Site::Signer => &self.signer,
            Site::Signee => &self.signee,
            Site::Uid => &self.uid,
            Site::Content => &self.content,
        }
    }
    fn json(&self) -> Value {
        json!({"sig": hexs(&self.sig), "signer": hexs(&self.signer), "signee": hexs(&self.signee),
               "uid": hexs(&self.uid), "content": hexs(&self.content)})
    }
}

struct PObj {
    name: String,
    /// object kind as it appears in violation signatures
    label: String,
    kind: Kind,
    version: u8,
    text: bool,
    /// the subkey binding carries the "sign" key flag: back signature is mandatory
    backsig: bool,
    /// slow public key algorithm: header octets get single-bit flips instead of all values
    slow: bool,
    art: Art,
    /// substitute keys: (class, site, key body)
    subst: Vec<(&'static str, Site, Vec<u8>)>,
}

fn hdr(tag: Tag, len: usize) -> PacketHeader {
    PacketHeader::new_fixed(tag, len as u32)
}
fn p_sig(b: &[u8]) -> pgp::errors::Result<Signature> {
    Signature::try_from_reader(hdr(Tag::Signature, b.len()), b)
}
fn p_key(b: &[u8]) -> pgp::errors::Result<PublicKey> {
    PublicKey::try_from_reader(hdr(Tag::PublicKey, b.len()), b)
}
fn p_sub(b: &[u8]) -> pgp::errors::Result<PublicSubkey> {
    PublicSubkey::try_from_reader(hdr(Tag::PublicSubkey, b.len()), b)
}
fn p_uid(b: &[u8]) -> pgp::errors::Result<UserId> {
    UserId::try_from_reader(hdr(Tag::UserId, b.len()), b)
}
fn p_attr(b: &[u8]) -> pgp::errors::Result<UserAttribute> {
    UserAttribute::try_from_reader(hdr(Tag::UserAttribute, b.len()), b)
}

/// Runs every verify entry point that applies to the object kind on artefacts re-parsed from
/// bytes. Result: (entry point, accepted). A parse failure of any artefact is reported as the
/// single pseudo entry ("parse", false): it is the required error for every entry point.
fn eval_pobj(ctx: &mut Ctx, o: &PObj, a: &Art, rep: &dyn Fn() -> Value) -> Vec<(&'static str, bool)> {
    let label = o.label.clone();
    let mut res: Vec<(&'static str, bool)> = vec![];
    macro_rules! entry {
        ($name:expr, $f:expr) => {{
            ctx.eval();
            let r = ctx.guarded(&format!("C02/{}/{}", label, $name), || rep(), $f);
            res.push(($name, matches!(r, Some(Ok(_)))));
        }};
    }
    macro_rules! parse {
        ($e:expr) => {
            match ctx.guarded(&format!("C02/{}/parse", label), || rep(), || $e) {
                Some(Ok(v)) => v,
                _ => return vec![("parse", false)],
            }
        };
    }
    let sig = parse!(p_sig(&a.sig));
    match o.kind {
        Kind::Data => {
            let key = parse!(p_key(&a.signer));
            entry!("Signature::verify", || sig.verify(&key, &a.content[..]));
            let framed = frame(2, &a.sig, &LenForm::NewMin).expect("frame");
            entry!("DetachedSignature::verify", || {
                DetachedSignature::from_bytes(&framed[..])?.verify(&key, &a.content)
            });
        }
        Kind::CertSelf => {
            let key = parse!(p_key(&a.signer));
            let id = parse!(p_uid(&a.uid));
            entry!("Signature::verify_certification", || sig.verify_certification(&key, Tag::UserId, &id));
            let su = SignedUser::new(id.clone(), vec![sig.clone()]);
            entry!("SignedUser::verify_bindings", || su.verify_bindings(&key));
        }
        Kind::AttrSelf => {
            let key = parse!(p_key(&a.signer));
            let at = parse!(p_attr(&a.uid));
            entry!("Signature::verify_certification", || {
                sig.verify_certification(&key, Tag::UserAttribute, &at)
            });
            let su = SignedUserAttribute::new(at.clone(), vec![sig.clone()]);
            entry!("SignedUserAttribute::verify_bindings", || su.verify_bindings(&key));
        }
        Kind::CertThird => {
            let signer = parse!(p_key(&a.signer));
            let signee = parse!(p_key(&a.signee));
            let id = parse!(p_uid(&a.uid));
            entry!("Signature::verify_third_party_certification", || {
                sig.verify_third_party_certification(&signee, &signer, Tag::UserId, &id)
            });
            let su = SignedUser::new(id.clone(), vec![sig.clone()]);
            entry!("SignedUser::verify_third_party", || su.verify_third_party(&signee, &signer));
        }
        Kind::SubBind => {
            let prim = parse!(p_key(&a.signer));
            let sub = parse!(p_sub(&a.signee));
            entry!("Signature::verify_subkey_binding", || sig.verify_subkey_binding(&prim, &sub));
            let ss = SignedPublicSubKey::new(sub.clone(), vec![sig.clone()]);
            entry!("SignedPublicSubKey::verify_bindings", || ss.verify_bindings(&prim));
        }
        Kind::PrimBind => {
            let sub = parse!(p_sub(&a.signer));
            let prim = parse!(p_key(&a.signee));
            entry!("Signature::verify_primary_key_binding", || {
                sig.verify_primary_key_binding(&sub, &prim)
            });
        }
        Kind::KeySelf => {
            let key = parse!(p_key(&a.signer));
            entry!("Signature::verify_key", || sig.verify_key(&key));
        }
        Kind::KeyThird => {
            let signer = parse!(p_key(&a.signer));
            let signee = parse!(p_key(&a.signee));
            entry!("Signature::verify_key_third_party", || sig.verify_key_third_party(&signee, &signer));
        }
    }
    res
}

/// Library parse + re-serialisation of one packet body (diagnosis of accepted perturbations
/// only, never an oracle).
fn reser(tag: u8, b: &[u8]) -> Option<Vec<u8>> {
    crate::core::guard(|| match tag {
        2 => p_sig(b).ok()?.to_bytes().ok(),
        4 => pgp::packet::OnePassSignature::try_from_reader(hdr(Tag::OnePassSignature, b.len()), b).ok()?.to_bytes().ok(),
        6 => p_key(b).ok()?.to_bytes().ok(),
        14 => p_sub(b).ok()?.to_bytes().ok(),
        13 => p_uid(b).ok()?.to_bytes().ok(),
        17 => p_attr(b).ok()?.to_bytes().ok(),
        _ => None,
    })
    .ok()
    .flatten()
}

fn same_reser(tag: u8, a: &[u8], b: &[u8]) -> bool {
    match (reser(tag, a), reser(tag, b)) {
        (Some(x), Some(y)) => x == y,
        _ => false,
    }
}

fn site_tag(s: Site, k: Kind) -> u8 {
    match (s, k) {
        (Site::Sig, _) => 2,
        (Site::Uid, Kind::AttrSelf) => 17,
        (Site::Uid, _) => 13,
        (Site::Signer, Kind::PrimBind) | (Site::Signee, Kind::SubBind) => 14,
        (Site::Signer | Site::Signee, _) => 6,
        (Site::Content, _) => 0,
    }
}

fn checks_backsig(entry: &str) -> bool {
    entry.ends_with("SubKey::verify_bindings") || entry.ends_with("Key::verify_bindings")
}

/// Applies the verdict rule to the results of one perturbed evaluation.
#[allow(clippy::too_many_arguments)]
fn judge(
    ctx: &mut Ctx,
    label: &str,
    name: &str,
    backsig: bool,
    req: Req,
    detail: &str,
    results: &[(&'static str, bool)],
    rep: &dyn Fn() -> Value,
    lossy: &dyn Fn() -> bool,
) {
    let mut lossy_memo: Option<bool> = None;
    for (entry, ok) in results {
        let must = match req {
            Req::Must => true,
            Req::Either => false,
            Req::Backsig => backsig && checks_backsig(entry),
        };
        if must {
            ctx.tally("must.evaluated", 1);
            if *ok {
                // symptom class: does the library parse the perturbed artefact to the very same
                // object as the original (its re-serialisation is identical)? Then the changed
                // octets never reach the hash: "lossy-parse". Otherwise the object differs and
                // still verifies.
                let l = *lossy_memo.get_or_insert_with(lossy);
                if l {
                    // one class per artefact type, whatever object / entry point showed it
                    let class = match detail.split_once(':') {
                        None => format!("sig:{detail}"),
                        Some((site, d)) if site.contains("key") => format!("key:{d}"),
                        Some((site, d)) => format!("{site}:{d}"),
                    };
                    ctx.violation(
                        format!("C02/lossy-parse/{class}/accepted"),
                        format!("{name}: {entry} returned Ok after a change of a semantic octet ({detail}); the library parses the changed artefact to the same object as the original (re-serialisation identical), so the changed octets are not what is hashed"),
                        rep(),
                    );
                } else {
                    ctx.violation(
                        format!("C02/{label}/{entry}/{detail}/accepted"),
                        format!("{name}: {entry} returned Ok after a perturbation of a semantic region ({detail})"),
                        rep(),
                    );
                }
            }
        } else {
            ctx.tally(if *ok { "either.accepted" } else { "either.rejected" }, 1);
        }
    }
}

const GROUPS: u64 = 8;

/// Progress heartbeat: the watchdog budget applies to the time since the last description, so
/// a case made of thousands of small evaluations is bounded per slice of evaluations (a hang in
/// a single verify call is still caught) and does not time out on a loaded machine.
fn heartbeat(what: &str, name: &str, g: u64, i: usize) {
    if i % 32 == 0 {
        describe_case(&format!("C02 {what} {name} group {g} perturbation {i}"));
    }
}

/// Drives one packet-level object: baseline, then all perturbations, split over GROUPS cases.
fn run_pobj(ctx: &mut Ctx, idx: u64, build: &dyn Fn(&mut ChaCha8Rng) -> Result<PObj, String>) {
    let mut obj: Option<Result<(PObj, Vec<(Site, Pert)>), String>> = None;
    let bytesubs = ctx.qt(0usize, 3usize);
    for g in 0..GROUPS {
        if !ctx.mine() {
            continue;
        }
        if obj.is_none() {
            let mut rng = ctx.rng("pobj", idx);
            obj = Some(build(&mut rng).and_then(|o| {
                let perts = pobj_perts(&o, bytesubs, &mut rng)?;
                Ok((o, perts))
            }));
        }
        let (o, perts) = match obj.as_ref().unwrap() {
            Ok(x) => x,
            Err(e) => {
                if g == 0 || ctx.only.is_some() {
                    ctx.inconclusive(format!("object {idx} could not be built: {e}"));
                }
                return;
            }
        };
        describe_case(&format!("C02 packet object {} group {g}", o.name));
        // baseline: the unperturbed object must verify on every entry point
        let base_rep = || json!({"object": o.name, "art": o.art.json()});
        let base = eval_pobj(ctx, o, &o.art, &base_rep);
        if base.iter().any(|(_, ok)| !ok) {
            ctx.inconclusive(format!("baseline of {} does not verify: {:?}", o.label, base));
            return;
        }
        ctx.seen("objects", format!("{}|v{}", o.label, o.version));
        for (pi, (site, p)) in perts.iter().enumerate() {
            if group_of(*site as u64, p, GROUPS) != g {
                continue;
            }
            heartbeat("packet object", &o.name, g, pi / GROUPS as usize);
            let a = o.art.with(*site, p.op.apply(o.art.get(*site)));
            let rep = || json!({"object": o.name, "site": format!("{site:?}"), "region": p.detail, "op": p.op.json(), "art": a.json()});
            let r = eval_pobj(ctx, o, &a, &rep);
            let sname = site_name(*site, o.kind);
            let detail = if *site == Site::Sig { p.detail.clone() } else { format!("{sname}:{}", p.detail) };
            let lossy = || same_reser(site_tag(*site, o.kind), o.art.get(*site), a.get(*site));
            judge(ctx, &o.label, &o.name, o.backsig, p.req, &detail, &r, &rep, &lossy);
            ctx.cover(&(&o.name, sname, p.region, cover_pos(&p.op)));
            ctx.tally(&format!("flips.{}{}", if *site == Site::Sig { String::new() } else { format!("{sname}:") }, p.region), 1);
            if p.req != Req::Either {
                ctx.seen("cells", format!("{}|v{}|{}{}", kind_class(o.kind), o.version, if *site == Site::Sig { String::new() } else { format!("{sname}:") }, p.region));
            }
        }
        if g == 0 && idx % 7 == 0 {
            ctx.sample(json!({"family": "packet", "object": o.name, "perturbations": perts.len(), "art": o.art.json()}));
        }
    }
}

fn site_name(s: Site, k: Kind) -> &'static str {
    match (s, k) {
        (Site::Sig, _) => "sig",
        (Site::Content, _) => "content",
        (Site::Uid, Kind::AttrSelf) => "attr",
        (Site::Uid, _) => "uid",
        (Site::Signer, Kind::Data) => "verifying-key",
        (Site::Signer, Kind::CertSelf | Kind::AttrSelf | Kind::KeySelf) => "key(self)",
        (Site::Signer, _) => "signer-key",
        (Site::Signee, _) => "signee-key",
    }
}

fn kind_class(k: Kind) -> &'static str {
    match k {
        Kind::Data => "data",
        Kind::CertSelf | Kind::CertThird | Kind::AttrSelf => "certification",
        Kind::SubBind => "subkey-binding",
        Kind::PrimBind => "primary-key-binding",
        Kind::KeySelf | Kind::KeyThird => "key-signature",
    }
}

/// The perturbation list of a packet object over all its artefacts.
fn pobj_perts(o: &PObj, bytesubs: usize, rng: &mut ChaCha8Rng) -> Result<Vec<(Site, Pert)>, String> {
    let mut out: Vec<(Site, Pert)> = vec![];
    let so = SigOpts { full_header: !o.slow, bytesubs };
    for p in sig_perts(&o.art.sig, &so, rng)? {
        out.push((Site::Sig, p));
    }
    let third = matches!(o.kind, Kind::CertThird | Kind::KeyThird | Kind::SubBind | Kind::PrimBind);
    // signer key: for self signatures it is signed content as well
    let signer_hashed = !matches!(o.kind, Kind::Data | Kind::CertThird | Kind::KeyThird);
    for p in key_perts(&o.art.signer, signer_hashed, bytesubs, rng)? {
        out.push((Site::Signer, p));
    }
    if third {
        for p in key_perts(&o.art.signee, true, bytesubs, rng)? {
            out.push((Site::Signee, p));
        }
    }
    if matches!(o.kind, Kind::CertSelf | Kind::CertThird | Kind::AttrSelf) {
        let u = &o.art.uid;
        let mut v = vec![];
        let ad = attr_detail(u);
        let is_attr = o.kind == Kind::AttrSelf;
        add_flips(&mut v, "id", Req::Must, 0, u.len(), &|i| if is_attr { ad[i].clone() } else { "id".into() });
        if o.kind != Kind::AttrSelf {
            v.push(Pert { region: "id-trunc", detail: "id-trunc".into(), req: Req::Must, op: Op::Del(u.len() - 1, 1) });
            v.push(Pert { region: "id-trunc", detail: "id-trunc".into(), req: Req::Must, op: Op::Del(0, 1) });
            v.push(Pert { region: "id-extend", detail: "id-extend".into(), req: Req::Must, op: Op::Ins(u.len(), vec![b' ']) });
            v.push(Pert { region: "id-extend", detail: "id-extend".into(), req: Req::Must, op: Op::Ins(u.len(), vec![0]) });
            v.push(Pert { region: "id-extend", detail: "id-extend".into(), req: Req::Must, op: Op::Ins(0, vec![b' ']) });
        }
        out.extend(v.into_iter().map(|p| (Site::Uid, p)));
    }
    if o.kind == Kind::Data {
        for (region, req, c) in content_perts(&o.art.content, o.text) {
            out.push((Site::Content, Pert { region, detail: region.into(), req, op: Op::Replace(c) }));
        }
    }
    for (class, site, body) in &o.subst {
        out.push((*site, Pert { region: "key-subst", detail: format!("key-subst.{class}"), req: Req::Must, op: Op::Replace(body.clone()) }));
    }
    Ok(out)
}

// ==========================================================================================
// object builders (library signing APIs only)

fn es<E: std::fmt::Display>(what: &'static str) -> impl Fn(E) -> String {
    move |e| format!("{what}: {e}")
}

fn ts() -> Timestamp {
    Timestamp::from_secs(TS)
}

#[derive(Clone, Copy, PartialEq, Eq, Debug)]
enum SpMode {
    /// hashed: issuer fingerprint + creation time; unhashed: issuer key id (v4)
    Default,
    /// hashed: creation time only (no issuer: key substitution reaches the cryptography)
    Bare,
    /// hashed: one subpacket of every kind
    Rich,
}

fn sp_default(key: &impl KeyDetails) -> Result<(Vec<Subpacket>, Vec<Subpacket>), String> {
    let hashed = vec![
        Subpacket::regular(SubpacketData::IssuerFingerprint(key.fingerprint())).map_err(es("sp"))?,
        Subpacket::regular(SubpacketData::SignatureCreationTime(ts())).map_err(es("sp"))?,
    ];
    let mut unhashed = vec![];
    if key.version() == pgp::types::KeyVersion::V4 {
        unhashed.push(Subpacket::regular(SubpacketData::IssuerKeyId(key.legacy_key_id())).map_err(es("sp"))?);
    }
    Ok((hashed, unhashed))
}

/// A hashed area with one subpacket of (almost) every type, written with the reference encoder
/// and taken through the library's parser (booleans false, notation not human-readable, two-octet
/// key flags and features, unknown and experimental types: the forms whose re-serialisation is
/// most likely to be lossy).
fn sp_rich(key: &impl KeyDetails) -> Result<Vec<Subpacket>, String> {
    let v6 = key.version() == pgp::types::KeyVersion::V6;
    let fp = key.fingerprint();
    let mut fpb = vec![if v6 { 6u8 } else { 4u8 }];
    fpb.extend_from_slice(fp.as_bytes());
    let kid = key.legacy_key_id();
    let mut revkey = vec![0x80u8, 1];
    revkey.extend([0x5Au8; 20]);
    let mut target = vec![1u8, 8];
    target.extend([0xA5u8; 32]);
    let list: Vec<(u8, bool, Vec<u8>)> = vec![
        (2, true, TS.to_be_bytes().to_vec()),
        (3, false, 86_400_000u32.to_be_bytes().to_vec()),
        (4, false, vec![0]),
        (5, false, vec![1, 60]),
        (6, false, b"<[^>]+[@.]example\\.org>$\0".to_vec()),
        (7, false, vec![0]),
        (9, false, 31_536_000u32.to_be_bytes().to_vec()),
        (11, false, vec![9, 8, 7]),
        (12, false, revkey),
        (16, false, kid.as_ref().to_vec()),
        (20, false, { let mut n = vec![0u8, 0, 0, 0, 0, 11, 0, 3]; n.extend(b"k@example.x"); n.extend(b"val"); n }),
        (21, false, vec![10, 8]),
        (22, false, vec![2, 1]),
        (23, false, vec![0x80]),
        (24, false, b"hkps://keys.example.org".to_vec()),
        (25, false, vec![0]),
        // longer than 191 octets: two-octet subpacket length
        (26, false, { let mut u = b"https://example.org/policy/".to_vec(); u.extend(std::iter::repeat(b'x').take(280)); u }),
        (27, false, vec![0x03, 0x04]),
        (28, false, b"me@example.org".to_vec()),
        (29, false, vec![0, b'n', b'o']),
        (30, false, vec![0x01, 0x00]),
        (31, false, target),
        (33, false, fpb.clone()),
        (34, false, vec![2]),
        (35, false, fpb),
        (39, false, vec![9, 2, 7, 2]),
        (101, false, b"exp".to_vec()),
        (50, false, b"unk".to_vec()),
    ];
    let mut area = vec![];
    for (t, c, b) in &list {
        area.extend(encode_subpacket(*t, *c, b, 0));
    }
    let rs = RefSig {
        version: if v6 { 6 } else { 4 },
        typ: 0,
        pub_alg: 27,
        hash_alg: 8,
        created: 0,
        issuer: [0; 8],
        hashed: area,
        unhashed: vec![],
        left16: [0, 0],
        salt: if v6 { vec![0; 16] } else { vec![] },
        sig_data: vec![0; 64],
        off_hashed: 0,
        off_unhashed: 0,
        off_left16: 0,
        off_salt: 0,
        off_sig: 0,
    };
    let sig = p_sig(&rs.encode()).map_err(es("library rejects the reference-built rich hashed area"))?;
    Ok(sig.config().ok_or("no config")?.hashed_subpackets.clone())
}

fn sp_for(mode: SpMode, key: &impl KeyDetails) -> Result<(Vec<Subpacket>, Vec<Subpacket>), String> {
    match mode {
        SpMode::Default => sp_default(key),
        SpMode::Bare => Ok((
            vec![Subpacket::regular(SubpacketData::SignatureCreationTime(ts())).map_err(es("sp"))?],
            vec![],
        )),
        SpMode::Rich => Ok((sp_rich(key)?, vec![])),
    }
}

fn is_slow_alg(a: &Alg) -> bool {
    matches!(a, Alg::Rsa2048 | Alg::Dsa2048 | Alg::EcdsaP521 | Alg::EcdsaP384 | Alg::Ed448)
}

/// substitute verifying keys: another key of the same algorithm, one of a different algorithm
fn substitutes(spec: &Spec, kidx: u64) -> Vec<(&'static str, Vec<u8>)> {
    let mut v = vec![];
    let same = match spec.primary {
        Alg::Dsa2048 => None,
        Alg::Rsa2048 => {
            let other = if spec.enc_sub.is_some() {
                Spec::simple(spec.v6, Alg::Rsa2048, None)
            } else {
                Spec::simple(spec.v6, Alg::Rsa2048, Some(Alg::Rsa2048))
            };
            Some(zoo::key(&other, 0))
        }
        _ => Some(zoo::key(&Spec::simple(spec.v6, spec.primary.clone(), None), kidx + 11)),
    };
    if let Some(k) = same {
        v.push(("same-alg", k.primary_key.public_key().to_bytes().expect("key bytes")));
    }
    let dalg = match (&spec.primary, spec.v6) {
        (Alg::Ed25519 | Alg::Ed25519Legacy, _) => Alg::EcdsaP256,
        (_, true) => Alg::Ed25519,
        (_, false) => Alg::Ed25519Legacy,
    };
    let k = zoo::key(&Spec::simple(spec.v6, dalg, None), 13);
    v.push(("other-alg", k.primary_key.public_key().to_bytes().expect("key bytes")));
    v
}

#[derive(Clone)]
struct DataSpec {
    spec: Spec,
    kidx: u64,
    text: bool,
    hash: HashAlgorithm,
    sp: SpMode,
    content: Vec<u8>,
}

fn data_contents(i: usize) -> Vec<u8> {
    // texts that end right at / next to the 512-octet window of the canonicalising reader, so that
    // extending or truncating them by one line-ending octet moves across the window edge
    if i >= 100 {
        let (len, tail): (usize, &[u8]) = match i {
            100 => (511, b"z"),
            101 => (512, b"\r"),
            102 => (1023, b"z"),
            _ => (1024, b"\r\n"),
        };
        let mut d: Vec<u8> = (0..len).map(|k| if k % 61 == 60 { b'\n' } else { b'a' + (k % 23) as u8 }).collect();
        let l = d.len();
        d[l - tail.len()..].copy_from_slice(tail);
        return d;
    }
    let v: [&[u8]; 4] = [
        b"Hello, world. \x00\xff\x80 binary\n",
        b"line one\r\nline two\nlast line without eol",
        b"a\n\nb \r\n",
        b"0123456789abcdef0123456789abcdef",
    ];
    v[i % v.len()].to_vec()
}

fn build_data(ds: &DataSpec, rng: &mut ChaCha8Rng) -> Result<PObj, String> {
    let key = zoo::key(&ds.spec, ds.kidx);
    let (hashed, unhashed) = sp_for(ds.sp, &key.primary_key)?;
    let cfg = SubpacketConfig::UserDefined { hashed, unhashed };
    let pw = Password::empty();
    let det = if ds.text {
        DetachedSignature::sign_text_data_with_subpackets(&mut *rng, &key.primary_key, &pw, ds.hash, &ds.content[..], cfg)
    } else {
        DetachedSignature::sign_binary_data_with_subpackets(&mut *rng, &key.primary_key, &pw, ds.hash, &ds.content[..], cfg)
    }
    .map_err(es("sign"))?;
    let version = if ds.spec.v6 { 6 } else { 4 };
    Ok(PObj {
        name: format!("detached-{}|{}|{:?}|{:?}", if ds.text { "text" } else { "binary" }, ds.spec.name(), ds.hash, ds.sp),
        label: format!("detached-{}", if ds.text { "text" } else { "binary" }),
        kind: Kind::Data,
        version,
        text: ds.text,
        backsig: false,
        slow: is_slow_alg(&ds.spec.primary),
        art: Art {
            sig: det.signature.to_bytes().map_err(es("ser"))?,
            signer: key.primary_key.public_key().to_bytes().map_err(es("ser"))?,
            content: ds.content.clone(),
            ..Default::default()
        },
        subst: substitutes(&ds.spec, ds.kidx).into_iter().map(|(c, b)| (c, Site::Signer, b)).collect(),
    })
}

/// Which certificate-forming signature to take from / make on a zoo certificate
#[derive(Clone, Copy, PartialEq, Eq, Debug)]
enum CertSig {
    /// 0x13 as generated
    UidPositive,
    /// made with sign_certification: 0x10, 0x11, 0x12, 0x30
    UidMade(u8),
    /// made with sign_certification_third_party (type)
    UidThird(u8),
    /// user attribute, 0x13
    Attr,
    /// 0x18 of the encryption subkey as generated
    SubEnc,
    /// 0x18 of the signing subkey as generated (back signature in the hashed area)
    SubSign,
    /// 0x18 of the signing subkey re-made with the back signature in the UNHASHED area
    SubSignUnhashed,
    /// the embedded 0x19
    Back,
    /// 0x28 made with sign_subkey_binding
    SubRevocation,
    /// 0x1F as generated (v6) or made with sign_key (v4)
    Direct,
    /// 0x1F by another key
    DirectThird,
    /// 0x20 made with sign_key
    KeyRevocation,
    /// 0x20 by another key
    KeyRevocationThird,
}

fn cert_spec(v6: bool, primary: Alg, enc: Alg, sign: Option<Alg>) -> Spec {
    let mut s = Spec::simple(v6, primary, Some(enc));
    s.sign_sub = sign;
    s.uids = 2;
    s
}

fn styp(t: u8) -> SignatureType {
    SignatureType::from(t)
}

fn cfg_for(
    rng: &mut ChaCha8Rng,
    key: &(impl pgp::types::SigningKey + KeyDetails),
    typ: SignatureType,
    extra: Vec<SubpacketData>,
) -> Result<SignatureConfig, String> {
    let mut c = SignatureConfig::from_key(&mut *rng, key, typ).map_err(es("config"))?;
    let (mut hashed, unhashed) = sp_default(key)?;
    for e in extra {
        hashed.push(Subpacket::regular(e).map_err(es("sp"))?);
    }
    c.hashed_subpackets = hashed;
    c.unhashed_subpackets = unhashed;
    Ok(c)
}

/// Re-makes the binding of the signing subkey with the back signature in the unhashed area.
fn remake_sign_binding(rng: &mut ChaCha8Rng, key: &SignedSecretKey, j: usize) -> Result<Signature, String> {
    let pw = Password::empty();
    let prim_pub = key.primary_key.public_key();
    let sub = &key.secret_subkeys[j];
    let back = cfg_for(rng, &sub.key, SignatureType::KeyBinding, vec![])?
        .sign_primary_key_binding(&sub.key, sub.key.public_key(), &pw, prim_pub)
        .map_err(es("sign 0x19"))?;
    let mut flags = KeyFlags::default();
    flags.set_sign(true);
    let mut c = cfg_for(rng, &key.primary_key, SignatureType::SubkeyBinding, vec![SubpacketData::KeyFlags(flags)])?;
    c.unhashed_subpackets
        .push(Subpacket::regular(SubpacketData::EmbeddedSignature(Box::new(back))).map_err(es("sp"))?);
    c.sign_subkey_binding(&key.primary_key, prim_pub, &pw, sub.key.public_key())
        .map_err(es("sign 0x18"))
}

fn sign_sub_index(key: &SignedSecretKey) -> Option<usize> {
    key.secret_subkeys.iter().position(|s| s.signatures.iter().any(|g| g.key_flags().sign()))
}
fn enc_sub_index(key: &SignedSecretKey) -> Option<usize> {
    key.secret_subkeys.iter().position(|s| s.signatures.iter().all(|g| !g.key_flags().sign()))
}

fn build_certsig(spec: &Spec, kidx: u64, which: CertSig, rng: &mut ChaCha8Rng) -> Result<PObj, String> {
    let key = zoo::key(spec, kidx);
    let pw = Password::empty();
    let prim = key.primary_key.public_key().clone();
    let prim_b = prim.to_bytes().map_err(es("ser"))?;
    let other_spec = Spec::simple(spec.v6, if spec.v6 { Alg::Ed25519 } else { Alg::Ed25519Legacy }, None);
    let other = zoo::key(&other_spec, 21);
    let other_b = other.primary_key.public_key().to_bytes().map_err(es("ser"))?;
    let user = key.details.users.first().ok_or("no user")?;
    let uid_b = user.id.to_bytes().map_err(es("ser"))?;
    let mut art = Art { signer: prim_b.clone(), ..Default::default() };
    let mut backsig = false;
    let mut subst: Vec<(&'static str, Site, Vec<u8>)> = vec![];
    let keysub = substitutes(spec, kidx);
    let (kind, sig): (Kind, Signature) = match which {
        CertSig::UidPositive => {
            art.uid = uid_b;
            (Kind::CertSelf, user.signatures.first().ok_or("no cert")?.clone())
        }
        CertSig::UidMade(t) => {
            art.uid = uid_b;
            let extra = if t == 0x30 {
                vec![SubpacketData::RevocationReason(pgp::packet::RevocationCode::CertUserIdInvalid, Bytes::from_static(b"gone"))]
            } else {
                vec![]
            };
            let s = cfg_for(rng, &key.primary_key, styp(t), extra)?
                .sign_certification(&key.primary_key, &prim, &pw, Tag::UserId, &user.id)
                .map_err(es("sign cert"))?;
            (Kind::CertSelf, s)
        }
        CertSig::UidThird(t) => {
            art.uid = uid_b;
            art.signer = other_b.clone();
            art.signee = prim_b.clone();
            let s = cfg_for(rng, &other.primary_key, styp(t), vec![])?
                .sign_certification_third_party(&other.primary_key, &pw, &prim, Tag::UserId, &user.id)
                .map_err(es("sign cert3"))?;
            (Kind::CertThird, s)
        }
        CertSig::Attr => {
            let at = UserAttribute::new_image(Bytes::from_static(b"\xff\xd8\xff\xe0not really a jpeg\xff\xd9")).map_err(es("attr"))?;
            art.uid = at.to_bytes().map_err(es("ser"))?;
            let s = cfg_for(rng, &key.primary_key, SignatureType::CertPositive, vec![])?
                .sign_certification(&key.primary_key, &prim, &pw, Tag::UserAttribute, &at)
                .map_err(es("sign attr"))?;
            (Kind::AttrSelf, s)
        }
        CertSig::SubEnc | CertSig::SubSign | CertSig::SubSignUnhashed | CertSig::SubRevocation | CertSig::Back => {
            let j = match which {
                CertSig::SubEnc | CertSig::SubRevocation => enc_sub_index(&key),
                _ => sign_sub_index(&key),
            }
            .ok_or("certificate has no such subkey")?;
            let sub = &key.secret_subkeys[j];
            let sub_b = sub.key.public_key().to_bytes().map_err(es("ser"))?;
            art.signee = sub_b.clone();
            // another subkey of the same certificate as substitute signee
            if let Some(o) = key.secret_subkeys.iter().enumerate().find(|(i, _)| *i != j) {
                subst.push(("other-subkey", Site::Signee, o.1.key.public_key().to_bytes().map_err(es("ser"))?));
            }
            match which {
                CertSig::SubEnc => (Kind::SubBind, sub.signatures[0].clone()),
                CertSig::SubSign => {
                    backsig = true;
                    (Kind::SubBind, sub.signatures[0].clone())
                }
                CertSig::SubSignUnhashed => {
                    backsig = true;
                    (Kind::SubBind, remake_sign_binding(rng, &key, j)?)
                }
                CertSig::SubRevocation => {
                    let s = cfg_for(rng, &key.primary_key, SignatureType::SubkeyRevocation, vec![])?
                        .sign_subkey_binding(&key.primary_key, &prim, &pw, sub.key.public_key())
                        .map_err(es("sign 0x28"))?;
                    (Kind::SubBind, s)
                }
                _ => {
                    let b = sub.signatures[0].embedded_signature().ok_or("no embedded signature")?.clone();
                    art.signer = sub_b;
                    art.signee = prim_b.clone();
                    subst.clear();
                    (Kind::PrimBind, b)
                }
            }
        }
        CertSig::Direct => {
            let s = match key.details.direct_signatures.first() {
                Some(s) => s.clone(),
                None => cfg_for(rng, &key.primary_key, SignatureType::Key, vec![])?
                    .sign_key(&key.primary_key, &pw, &prim)
                    .map_err(es("sign 0x1f"))?,
            };
            (Kind::KeySelf, s)
        }
        CertSig::KeyRevocation => {
            let s = cfg_for(rng, &key.primary_key, SignatureType::KeyRevocation, vec![])?
                .sign_key(&key.primary_key, &pw, &prim)
                .map_err(es("sign 0x20"))?;
            (Kind::KeySelf, s)
        }
        CertSig::DirectThird | CertSig::KeyRevocationThird => {
            art.signer = other_b.clone();
            art.signee = prim_b.clone();
            let t = if which == CertSig::DirectThird { SignatureType::Key } else { SignatureType::KeyRevocation };
            let s = cfg_for(rng, &other.primary_key, t, vec![])?
                .sign_key(&other.primary_key, &pw, &prim)
                .map_err(es("sign 3rd key"))?;
            (Kind::KeyThird, s)
        }
    };
    art.sig = sig.to_bytes().map_err(es("ser"))?;
    let t: u8 = sig.typ().map(u8::from).unwrap_or(0xff);
    // key substitutions
    match kind {
        Kind::CertSelf | Kind::AttrSelf | Kind::KeySelf | Kind::SubBind => {
            for (c, b) in keysub {
                subst.push((c, Site::Signer, b));
            }
        }
        Kind::CertThird | Kind::KeyThird => {
            subst.push(("other-signee", Site::Signee, other_b.clone()));
            subst.push(("signee-as-signer", Site::Signer, prim_b.clone()));
        }
        Kind::PrimBind => {
            subst.push(("other-primary", Site::Signee, other_b.clone()));
        }
        Kind::Data => {}
    }
    let label = match kind {
        Kind::CertSelf => format!("cert-{t:#04x}"),
        Kind::CertThird => format!("cert3-{t:#04x}"),
        Kind::AttrSelf => format!("attr-{t:#04x}"),
        Kind::SubBind if which == CertSig::SubSignUnhashed => format!("subkey-{t:#04x}-backsig-unhashed"),
        Kind::SubBind if which == CertSig::SubSign => format!("subkey-{t:#04x}-backsig-hashed"),
        Kind::SubBind => format!("subkey-{t:#04x}"),
        Kind::PrimBind => format!("primary-binding-{t:#04x}"),
        Kind::KeySelf => format!("key-{t:#04x}"),
        Kind::KeyThird => format!("key3-{t:#04x}"),
        Kind::Data => unreachable!(),
    };
    Ok(PObj {
        name: format!("{label}|{}|{which:?}", spec.name()),
        label,
        kind,
        version: if spec.v6 { 6 } else { 4 },
        text: false,
        backsig,
        slow: is_slow_alg(&spec.primary),
        art,
        subst,
    })
}

// ==========================================================================================
// messages: one-pass signed (1-3 signers) and prefixed signatures

struct MObj {
    name: String,
    label: &'static str,
    version: String,
    text: bool,
    bytes: Vec<u8>,
    pkts: Vec<RawPacket>,
    keys: Vec<PublicKey>,
    other_key: PublicKey,
    /// packet indices
    ops: Vec<usize>,
    sigs: Vec<usize>,
    lit: usize,
    /// signature index (as used by verify_nested_explicit) of ops[k] / sigs[k]
    idx_of_ops: Vec<usize>,
    idx_of_sig: Vec<usize>,
    /// key (index into keys) whose signature sits at signature index i
    key_of_idx: Vec<usize>,
    /// offset of the data inside the literal packet body
    lit_data_off: usize,
}

#[derive(Debug, Clone, Default)]
struct MOut {
    parsed: bool,
    explicit: Vec<bool>,
    verify0: bool,
    nested: Vec<bool>,
    read0: bool,
}

impl MObj {
    fn n(&self) -> usize {
        self.key_of_idx.len().max(self.sigs.len())
    }
    /// message with packet `k` replaced by a re-framed body
    fn splice(&self, k: usize, body: &[u8]) -> Vec<u8> {
        let p = &self.pkts[k];
        let mut out = self.bytes[..p.offset].to_vec();
        out.extend(frame(p.tag, body, &LenForm::NewMin).expect("frame"));
        out.extend_from_slice(&self.bytes[p.offset + p.encoded_len..]);
        out
    }
}

/// Parses the message, reads it to the end and runs the message-level entry points.
/// `pair`: key index to use for signature index i.
fn eval_msg(ctx: &mut Ctx, label: &str, bytes: &[u8], keys: &[PublicKey], pair: &[usize], rep: &dyn Fn() -> Value) -> MOut {
    let n = pair.len();
    let r = ctx.guarded(&format!("C02/{label}/Message"), || rep(), || {
        let mut out = MOut { explicit: vec![false; n], nested: vec![false; n], ..Default::default() };
        let Ok(mut msg) = Message::from_bytes(bytes) else { return out };
        let mut sink = vec![];
        if msg.read_to_end(&mut sink).is_err() {
            return out;
        }
        out.parsed = true;
        for i in 0..n {
            out.explicit[i] = msg.verify_nested_explicit(i, &keys[pair[i]]).is_ok();
        }
        out.verify0 = msg.verify(&keys[pair[0]]).is_ok();
        let refs: Vec<&dyn VerifyingKey> = pair.iter().map(|j| &keys[*j] as &dyn VerifyingKey).collect();
        if let Ok(v) = msg.verify_nested(&refs) {
            for (i, r) in v.iter().enumerate() {
                out.nested[i] = matches!(r, VerificationResult::Valid(_));
            }
        }
        drop(msg);
        if let Ok(mut m2) = Message::from_bytes(bytes) {
            out.read0 = m2.verify_read(&keys[pair[0]]).is_ok();
        }
        out
    });
    ctx.evals_add((n * n + n + 2) as u64);
    r.unwrap_or_else(|| MOut { explicit: vec![false; n], nested: vec![false; n], ..Default::default() })
}

#[derive(Clone)]
struct MsgSpec {
    signers: Vec<(Spec, HashAlgorithm)>,
    text: bool,
    prefixed: bool,
    content: Vec<u8>,
}

fn build_msg(ms: &MsgSpec, rng: &mut ChaCha8Rng, ctx: &mut Ctx) -> Result<MObj, String> {
    let pw = Password::empty();
    let skeys: Vec<SignedSecretKey> = ms.signers.iter().enumerate().map(|(i, (s, _))| zoo::key(s, 30 + i as u64)).collect();
    let keys: Vec<PublicKey> = skeys.iter().map(|k| k.primary_key.public_key().clone()).collect();
    let v6 = ms.signers[0].0.v6;
    let other_key = zoo::key(&Spec::simple(v6, ms.signers[0].0.primary.clone(), None), 41)
        .primary_key
        .public_key()
        .clone();
    let bytes = if ms.prefixed {
        // [signature]* [literal]: signatures made as detached signatures over the same data
        let mut out = vec![];
        for (k, (_, h)) in skeys.iter().zip(&ms.signers) {
            let (hashed, unhashed) = sp_default(&k.primary_key)?;
            let cfg = SubpacketConfig::UserDefined { hashed, unhashed };
            let d = if ms.text {
                DetachedSignature::sign_text_data_with_subpackets(&mut *rng, &k.primary_key, &pw, *h, &ms.content[..], cfg)
            } else {
                DetachedSignature::sign_binary_data_with_subpackets(&mut *rng, &k.primary_key, &pw, *h, &ms.content[..], cfg)
            }
            .map_err(es("sign"))?;
            out.extend(frame(2, &d.signature.to_bytes().map_err(es("ser"))?, &LenForm::NewMin).unwrap());
        }
        let mut lit = vec![if ms.text { b'u' } else { b'b' }, 1, b'f'];
        lit.extend(TS.to_be_bytes());
        lit.extend_from_slice(&ms.content);
        out.extend(frame(11, &lit, &LenForm::NewMin).unwrap());
        out
    } else {
        let mut b = MessageBuilder::from_bytes("f", ms.content.clone());
        if ms.text {
            b.sign_text();
        }
        for (k, (_, h)) in skeys.iter().zip(&ms.signers) {
            let (hashed, unhashed) = sp_default(&k.primary_key)?;
            b.sign_with_subpackets(&k.primary_key, Password::empty(), *h, SubpacketConfig::UserDefined { hashed, unhashed });
        }
        b.to_vec(&mut *rng).map_err(es("build message"))?
    };
    let pkts = deframe(&bytes)?;
    if pkts.iter().any(|p| !p.partial_chunks.is_empty() || p.indeterminate) {
        return Err("message uses partial framing".into());
    }
    let ops: Vec<usize> = pkts.iter().enumerate().filter(|(_, p)| p.tag == 4).map(|(i, _)| i).collect();
    let sigs: Vec<usize> = pkts.iter().enumerate().filter(|(_, p)| p.tag == 2).map(|(i, _)| i).collect();
    let lits: Vec<usize> = pkts.iter().enumerate().filter(|(_, p)| p.tag == 11).map(|(i, _)| i).collect();
    let n = keys.len();
    if lits.len() != 1 || sigs.len() != n || (!ms.prefixed && ops.len() != n) || pkts.len() != lits.len() + sigs.len() + ops.len() {
        return Err(format!("unexpected message structure: tags {:?}", pkts.iter().map(|p| p.tag).collect::<Vec<_>>()));
    }
    let lit = lits[0];
    let lb = &pkts[lit].body;
    let lit_data_off = 2 + lb[1] as usize + 4;
    if lb[lit_data_off..] != ms.content[..] {
        return Err("literal body is not header + content".into());
    }
    let label = if ms.prefixed { "prefixed" } else { "one-pass" };
    let mut m = MObj {
        name: format!("{label}|{}|{}|n={n}", ms.signers.iter().map(|(s, h)| format!("{}+{h:?}", s.name())).collect::<Vec<_>>().join(","), if ms.text { "text" } else { "binary" }),
        label,
        version: if ms.signers.iter().all(|s| s.0.v6) { "v6".into() } else if ms.signers.iter().all(|s| !s.0.v6) { "v4".into() } else { "v4+v6".into() },
        text: ms.text,
        bytes,
        pkts,
        keys,
        other_key,
        ops,
        sigs,
        lit,
        idx_of_ops: (0..n).collect(),
        idx_of_sig: vec![],
        key_of_idx: vec![],
        lit_data_off,
    };
    // which key verifies signature index i (baseline)
    let rep = || json!({"object": m.name, "message": hexs(&m.bytes)});
    for i in 0..n {
        let mut found = None;
        for j in 0..n {
            let mut pair: Vec<usize> = (0..n).collect();
            pair[i] = j;
            // only index i matters here
            let o = eval_msg(ctx, label, &m.bytes, &m.keys, &pair, &rep);
            if o.parsed && o.explicit[i] {
                found = Some(j);
                break;
            }
        }
        m.key_of_idx.push(found.ok_or_else(|| format!("baseline: signature index {i} verifies with no signer key"))?);
    }
    let base = eval_msg(ctx, label, &m.bytes, &m.keys, &m.key_of_idx, &rep);
    if !(base.parsed && base.verify0 && base.read0 && base.explicit.iter().all(|b| *b) && base.nested.iter().all(|b| *b)) {
        return Err(format!("baseline message does not verify: {base:?}"));
    }
    // which signature index does trailing/leading signature packet p belong to: break its
    // left16 and see which index stops verifying
    for p in 0..n {
        let k = m.sigs[p];
        let body = &m.pkts[k].body;
        let rs = parse_sig(body)?;
        let nb = Op::Xor(rs.off_left16, 1).apply(body);
        let o = eval_msg(ctx, label, &m.splice(k, &nb), &m.keys, &m.key_of_idx, &rep);
        let failing: Vec<usize> = (0..n).filter(|i| !o.explicit[*i]).collect();
        if !o.parsed || failing.len() != 1 {
            return Err(format!("cannot attribute signature packet {p} to an index: {o:?}"));
        }
        m.idx_of_sig.push(failing[0]);
    }
    if !ms.prefixed {
        // ops[k] <-> index k is the library's documented order; confirm by breaking the type
        for k in 0..n {
            let pk = m.ops[k];
            let nb = Op::Xor(1, 0x40).apply(&m.pkts[pk].body);
            let o = eval_msg(ctx, label, &m.splice(pk, &nb), &m.keys, &m.key_of_idx, &rep);
            let failing: Vec<usize> = (0..n).filter(|i| !o.explicit[*i]).collect();
            if o.parsed && failing != vec![k] {
                return Err(format!("cannot attribute one-pass packet {k} to an index: {o:?}"));
            }
        }
    }
    Ok(m)
}

/// perturbations of a message: (packet index, affected signature indices, pert on the body)
fn msg_perts(m: &MObj, bytesubs: usize, rng: &mut ChaCha8Rng) -> Result<Vec<(usize, Vec<usize>, Pert)>, String> {
    let n = m.n();
    let all: Vec<usize> = (0..n).collect();
    let mut out = vec![];
    // literal packet
    let lb = &m.pkts[m.lit].body;
    let mut v = vec![];
    add_flips(&mut v, "literal-header", Req::Either, 0, m.lit_data_off, &|_| "literal-header".into());
    for p in v {
        out.push((m.lit, all.clone(), p));
    }
    let content = &lb[m.lit_data_off..];
    for (region, req, c) in content_perts(content, m.text) {
        let mut nb = lb[..m.lit_data_off].to_vec();
        nb.extend(c);
        out.push((m.lit, all.clone(), Pert { region, detail: region.into(), req, op: Op::Replace(nb) }));
    }
    // one-pass packets
    for (k, pk) in m.ops.iter().enumerate() {
        let b = &m.pkts[*pk].body;
        let ro = rfc::sig::parse_ops(b)?;
        let mut v = vec![];
        add_values(&mut v, "ops.version", Req::Must, 0, b[0]);
        add_values(&mut v, "ops.type", Req::Must, 1, b[1]);
        add_values(&mut v, "ops.hashalg", Req::Must, 2, b[2]);
        add_values(&mut v, "ops.pubalg", Req::Must, 3, b[3]);
        let mut p = 4;
        if ro.version == 6 {
            add_flips(&mut v, "ops.salt-len", Req::Must, 4, 1, &|_| "ops.salt-len".into());
            add_flips(&mut v, "ops.salt", Req::Must, 5, ro.salt.len(), &|_| "ops.salt".into());
            p = 5 + ro.salt.len();
        }
        add_flips(&mut v, "ops.issuer", Req::Either, p, ro.issuer.len(), &|_| "ops.issuer".into());
        add_flips(&mut v, "ops.nested", Req::Either, p + ro.issuer.len(), 1, &|_| "ops.nested".into());
        for x in v {
            out.push((*pk, vec![m.idx_of_ops[k]], x));
        }
    }
    // signature packets
    for (p, pk) in m.sigs.iter().enumerate() {
        let b = &m.pkts[*pk].body;
        let so = SigOpts { full_header: true, bytesubs };
        for x in sig_perts(b, &so, rng)? {
            out.push((*pk, vec![m.idx_of_sig[p]], x));
        }
    }
    Ok(out)
}

fn run_mobj(ctx: &mut Ctx, idx: u64, ms: &MsgSpec) {
    let mut obj: Option<Result<(MObj, Vec<(usize, Vec<usize>, Pert)>), String>> = None;
    let bytesubs = ctx.qt(0usize, 3usize);
    for g in 0..GROUPS {
        if !ctx.mine() {
            continue;
        }
        if obj.is_none() {
            let mut rng = ctx.rng("mobj", idx);
            obj = Some(build_msg(ms, &mut rng, ctx).and_then(|m| {
                let p = msg_perts(&m, bytesubs, &mut rng)?;
                Ok((m, p))
            }));
        }
        let (m, perts) = match obj.as_ref().unwrap() {
            Ok(x) => x,
            Err(e) => {
                if g == 0 || ctx.only.is_some() {
                    ctx.inconclusive(format!("message object {idx}: {e}"));
                }
                return;
            }
        };
        describe_case(&format!("C02 message object {} group {g}", m.name));
        ctx.seen("objects", format!("{}|{}", m.label, m.version));
        let n = m.n();
        for (pi, (pk, affected, p)) in perts.iter().enumerate() {
            if group_of(*pk as u64, p, GROUPS) != g {
                continue;
            }
            heartbeat("message object", &m.name, g, pi / GROUPS as usize);
            let nb = p.op.apply(&m.pkts[*pk].body);
            let bytes = m.splice(*pk, &nb);
            let rep = || json!({"object": m.name, "packet": pk, "tag": m.pkts[*pk].tag, "region": p.detail, "op": p.op.json(), "message": hexs(&bytes)});
            let o = eval_msg(ctx, m.label, &bytes, &m.keys, &m.key_of_idx, &rep);
            let mut results: Vec<(&'static str, bool)> = vec![];
            for i in affected {
                results.push(("Message::verify_nested_explicit", o.explicit[*i]));
                results.push(("Message::verify_nested", o.nested[*i]));
                if *i == 0 {
                    results.push(("Message::verify", o.verify0));
                    results.push(("Message::verify_read", o.read0));
                }
            }
            let lossy = || same_reser(m.pkts[*pk].tag, &m.pkts[*pk].body, &nb);
            judge(ctx, m.label, &m.name, false, p.req, &p.detail, &results, &rep, &lossy);
            ctx.cover(&(&m.name, pk, p.region, cover_pos(&p.op)));
            ctx.tally(&format!("flips.msg.{}", p.region), 1);
            if p.req != Req::Either {
                ctx.seen("cells", format!("{}|{}|{}", m.label, m.version, p.region));
            }
        }
        if g == 0 {
            // key substitution: a key that signed nothing
            let rep = || json!({"object": m.name, "message": hexs(&m.bytes), "key": "unrelated key of the same algorithm"});
            let mut keys = m.keys.clone();
            keys.push(m.other_key.clone());
            let pair = vec![keys.len() - 1; n];
            let o = eval_msg(ctx, m.label, &m.bytes, &keys, &pair, &rep);
            let mut results = vec![("Message::verify", o.verify0), ("Message::verify_read", o.read0)];
            for i in 0..n {
                results.push(("Message::verify_nested_explicit", o.explicit[i]));
                results.push(("Message::verify_nested", o.nested[i]));
            }
            judge(ctx, m.label, &m.name, false, Req::Must, "key-subst.same-alg", &results, &rep, &|| false);
            ctx.seen("cells", format!("{}|{}|key-subst", m.label, m.version));
            ctx.cover(&(&m.name, "key-subst"));
            if idx % 3 == 0 {
                ctx.sample(json!({"family": "message", "object": m.name, "perturbations": perts.len(), "message": hexs(&m.bytes)}));
            }
        }
    }
}

/// Case group of a perturbation: derived from what is perturbed, not from its list index, so
/// that shards whose copies of an object differ in a signature length (library-made
/// certificate signatures carry the current time, ECDSA/EdDSA-legacy MPIs vary in length)
/// still agree on who runs which perturbation.
fn group_of(unit: u64, p: &Pert, n: u64) -> u64 {
    let m = match &p.op {
        Op::Xor(_, m) | Op::Set(_, m) => *m as u64,
        Op::Del(_, k) => *k as u64,
        Op::Ins(_, x) => x.len() as u64,
        Op::Splice(_, _, x) => 1000 + x.len() as u64,
        Op::Replace(_) => 0,
    };
    crate::core::hash64(&(unit, p.region, cover_pos(&p.op), m)) % n
}

fn cover_pos(op: &Op) -> u64 {
    match op {
        Op::Replace(x) => crate::core::hash64(x),
        o => o.pos() as u64,
    }
}

// ==========================================================================================
// cleartext signed messages

struct KObj {
    name: String,
    version: u8,
    doc: String,
    /// byte range of the dash-escaped text inside doc
    text_range: (usize, usize),
    /// start of the signature armor inside doc
    armor_start: usize,
    sig_body: Vec<u8>,
    signed_form: String,
    key: PublicKey,
    other_key: PublicKey,
}

fn eval_csf(ctx: &mut Ctx, doc: &[u8], key: &PublicKey, rep: &dyn Fn() -> Value) -> Vec<(&'static str, bool)> {
    let mut res = vec![];
    ctx.eval();
    let r = ctx.guarded("C02/cleartext/from_armor", || rep(), || {
        CleartextSignedMessage::from_armor(doc).and_then(|(m, _)| m.verify(key).map(|_| ()))
    });
    res.push(("CleartextSignedMessage::verify", matches!(r, Some(Ok(())))));
    if let Ok(s) = std::str::from_utf8(doc) {
        ctx.eval();
        let r = ctx.guarded("C02/cleartext/from_string", || rep(), || {
            CleartextSignedMessage::from_string(s).and_then(|(m, _)| {
                m.verify_many(|_, sig, data| sig.verify(key, data))
            })
        });
        res.push(("CleartextSignedMessage::verify_many", matches!(r, Some(Ok(())))));
    }
    res
}

fn csf_doc(k: &KObj, sig_body: &[u8]) -> String {
    let pkt = frame(2, sig_body, &LenForm::NewMin).expect("frame");
    let mut d = k.doc[..k.armor_start].to_string();
    d.push_str(&rfc::armor::armor_encode("PGP SIGNATURE", &[], &pkt, true, "\n"));
    d
}

fn build_csf(spec: &Spec, hash: HashAlgorithm, text: &str, rng: &mut ChaCha8Rng) -> Result<KObj, String> {
    let key = zoo::key(spec, 50);
    let mut cfg = if spec.v6 {
        SignatureConfig::v6(&mut *rng, SignatureType::Text, key.primary_key.algorithm(), hash).map_err(es("cfg"))?
    } else {
        SignatureConfig::v4(SignatureType::Text, key.primary_key.algorithm(), hash)
    };
    let (h, u) = sp_default(&key.primary_key)?;
    cfg.hashed_subpackets = h;
    cfg.unhashed_subpackets = u;
    let m = CleartextSignedMessage::new(text, cfg, &key.primary_key, &Password::empty()).map_err(es("csf sign"))?;
    let doc = m.to_armored_string(Default::default()).map_err(es("csf armor"))?;
    let parsed = rfc::armor::csf_parse(&doc)?;
    let needle = format!("\n\n{}\n-----BEGIN PGP SIGNATURE-----", parsed.escaped_text);
    let at = doc.find(&needle).ok_or("cannot locate text in cleartext document")?;
    let text_range = (at + 2, at + 2 + parsed.escaped_text.len());
    let armor_start = text_range.1 + 1;
    let pa = rfc::armor::armor_parse_strict(&doc[armor_start..])?;
    let pk = deframe(&pa.data)?;
    if pk.len() != 1 || pk[0].tag != 2 {
        return Err("cleartext signature armor is not one signature packet".into());
    }
    Ok(KObj {
        name: format!("cleartext|{}|{hash:?}", spec.name()),
        version: if spec.v6 { 6 } else { 4 },
        doc,
        text_range,
        armor_start,
        sig_body: pk[0].body.clone(),
        signed_form: rfc::armor::csf_signed_form(&parsed.text),
        key: key.primary_key.public_key().clone(),
        other_key: zoo::key(&Spec::simple(spec.v6, spec.primary.clone(), None), 51).primary_key.public_key().clone(),
    })
}

fn run_kobj(ctx: &mut Ctx, idx: u64, spec: &Spec, hash: HashAlgorithm, text: &str) {
    let mut obj: Option<Result<(KObj, Vec<Pert>), String>> = None;
    for g in 0..GROUPS {
        if !ctx.mine() {
            continue;
        }
        if obj.is_none() {
            let mut rng = ctx.rng("kobj", idx);
            obj = Some(build_csf(spec, hash, text, &mut rng).and_then(|k| {
                let p = sig_perts(&k.sig_body, &SigOpts { full_header: true, bytesubs: 0 }, &mut rng)?;
                Ok((k, p))
            }));
        }
        let (k, sperts) = match obj.as_ref().unwrap() {
            Ok(x) => x,
            Err(e) => {
                if g == 0 || ctx.only.is_some() {
                    ctx.inconclusive(format!("cleartext object {idx}: {e}"));
                }
                return;
            }
        };
        describe_case(&format!("C02 cleartext object {} group {g}", k.name));
        let base_doc = csf_doc(k, &k.sig_body);
        let rep0 = || json!({"object": k.name, "doc": base_doc});
        let b1 = eval_csf(ctx, k.doc.as_bytes(), &k.key, &rep0);
        let b2 = eval_csf(ctx, base_doc.as_bytes(), &k.key, &rep0);
        if b1.iter().chain(b2.iter()).any(|(_, ok)| !ok) {
            ctx.inconclusive(format!("baseline cleartext does not verify: {b1:?} {b2:?}"));
            return;
        }
        ctx.seen("objects", format!("cleartext|v{}", k.version));
        let cell = |r: &str| format!("cleartext|v{}|{}", k.version, r);
        // (a) text bits
        let mut pi = 0u64;
        for pos in k.text_range.0..k.text_range.1 {
            for bit in 0..8 {
                pi += 1;
                if pi % GROUPS != g {
                    continue;
                }
                let mut d = k.doc.clone().into_bytes();
                d[pos] ^= 1 << bit;
                let newb = d[pos];
                // required to fail only when the reference reads a different signed text
                let req = match std::str::from_utf8(&d).ok().and_then(|s| rfc::armor::csf_parse(s).ok()) {
                    Some(p) if newb != b'\r' && !p.text.ends_with('\r') && rfc::armor::csf_signed_form(&p.text) != k.signed_form => Req::Must,
                    _ => Req::Either,
                };
                let rep = || json!({"object": k.name, "region": "content", "at": pos, "bit": bit, "doc": hexs(&d)});
                let r = eval_csf(ctx, &d, &k.key, &rep);
                judge(ctx, "cleartext", &k.name, false, req, "content", &r, &rep, &|| false);
                ctx.cover(&(&k.name, "content", pos));
                ctx.tally("flips.csf.content", 1);
                if req == Req::Must {
                    ctx.seen("cells", cell("content"));
                }
            }
        }
        // (b) line insertions / removals in the text
        if g == 0 {
            let (s, e) = k.text_range;
            let variants: Vec<(&str, String)> = vec![
                ("content-extend", format!("{}{}\nextra line{}", &k.doc[..e], "", &k.doc[e..])),
                ("content-extend", format!("{}x{}", &k.doc[..s], &k.doc[s..])),
                ("content-trunc", format!("{}{}", &k.doc[..e - 1], &k.doc[e..])),
                ("content-trunc", format!("{}{}", &k.doc[..s], &k.doc[s + 1..])),
            ];
            for (region, d) in variants {
                let req = match rfc::armor::csf_parse(&d) {
                    Ok(p) if !p.text.ends_with('\r') && rfc::armor::csf_signed_form(&p.text) != k.signed_form => Req::Must,
                    _ => Req::Either,
                };
                let rep = || json!({"object": k.name, "region": region, "doc": d});
                let r = eval_csf(ctx, d.as_bytes(), &k.key, &rep);
                judge(ctx, "cleartext", &k.name, false, req, region, &r, &rep, &|| false);
                ctx.cover(&(&k.name, region, crate::core::hash64(&d)));
                if req == Req::Must {
                    ctx.seen("cells", cell(region));
                }
            }
            // key substitution
            let rep = || json!({"object": k.name, "region": "key-subst", "doc": k.doc});
            let r = eval_csf(ctx, k.doc.as_bytes(), &k.other_key, &rep);
            judge(ctx, "cleartext", &k.name, false, Req::Must, "key-subst.same-alg", &r, &rep, &|| false);
            ctx.seen("cells", cell("key-subst"));
            ctx.cover(&(&k.name, "key-subst"));
            ctx.sample(json!({"family": "cleartext", "object": k.name, "doc": k.doc}));
        }
        // (c) the armored signature
        for (i, p) in sperts.iter().enumerate() {
            if group_of(2, p, GROUPS) != g {
                continue;
            }
            heartbeat("cleartext object", &k.name, g, i / GROUPS as usize);
            let d = csf_doc(k, &p.op.apply(&k.sig_body));
            let rep = || json!({"object": k.name, "region": p.detail, "op": p.op.json(), "doc": d});
            let r = eval_csf(ctx, d.as_bytes(), &k.key, &rep);
            let nb = p.op.apply(&k.sig_body);
            let lossy = || same_reser(2, &k.sig_body, &nb);
            judge(ctx, "cleartext", &k.name, false, p.req, &p.detail, &r, &rep, &lossy);
            ctx.cover(&(&k.name, p.region, cover_pos(&p.op)));
            ctx.tally(&format!("flips.csf.{}", p.region), 1);
            if p.req == Req::Must {
                ctx.seen("cells", cell(p.region));
            }
        }
    }
}

// ==========================================================================================
// whole certificates: perturb the serialised TPK / TSK, re-parse, verify_bindings
//
// The key parser is lenient: components without a usable signature are dropped, unsupported
// packets end the certificate silently. The requirement is therefore "the perturbed component
// is no longer certified": verify_bindings returns Err, OR the parse fails, OR the perturbed
// component / signature is absent from the parsed certificate (component lists or the
// signature count of the component shrank). Only ONE packet is touched per case, so list
// positions of the other components are unchanged.

#[derive(Clone, Copy, PartialEq, Eq, Debug)]
enum CK {
    Primary,
    Uid(usize),
    Attr(usize),
    SubPub(usize),
    SubSec(usize),
}

#[derive(Clone, Debug)]
struct Comp {
    kind: CK,
    pkt: usize,
    sigs: Vec<usize>,
    /// a binding of this subkey carries the sign flag
    sign: bool,
}

#[derive(Clone, Debug, PartialEq, Eq, Default)]
struct CSum {
    direct: usize,
    users: Vec<usize>,
    attrs: Vec<usize>,
    subs_pub: Vec<usize>,
    subs_sec: Vec<usize>,
}

impl CSum {
    fn total(&self) -> usize {
        self.direct
            + self.users.iter().sum::<usize>()
            + self.attrs.iter().sum::<usize>()
            + self.subs_pub.iter().sum::<usize>()
            + self.subs_sec.iter().sum::<usize>()
    }
    fn count(&self, k: CK) -> Option<usize> {
        match k {
            CK::Primary => Some(self.direct),
            CK::Uid(i) => self.users.get(i).copied(),
            CK::Attr(i) => self.attrs.get(i).copied(),
            CK::SubPub(i) => self.subs_pub.get(i).copied(),
            CK::SubSec(i) => self.subs_sec.get(i).copied(),
        }
    }
    fn same_shape(&self, o: &CSum) -> bool {
        self.users.len() == o.users.len()
            && self.attrs.len() == o.attrs.len()
            && self.subs_pub.len() == o.subs_pub.len()
            && self.subs_sec.len() == o.subs_sec.len()
    }
}

struct CObj {
    name: String,
    secret: bool,
    version: u8,
    bytes: Vec<u8>,
    pkts: Vec<RawPacket>,
    comps: Vec<Comp>,
    base: CSum,
}

fn sum_details(d: &pgp::composed::SignedKeyDetails) -> CSum {
    CSum {
        direct: d.direct_signatures.len() + d.revocation_signatures.len(),
        users: d.users.iter().map(|u| u.signatures.len()).collect(),
        attrs: d.user_attributes.iter().map(|u| u.signatures.len()).collect(),
        ..Default::default()
    }
}

fn cert_reser(secret: bool, bytes: &[u8]) -> Option<Vec<u8>> {
    crate::core::guard(|| {
        if secret {
            SignedSecretKey::from_bytes(bytes).ok()?.to_bytes().ok()
        } else {
            SignedPublicKey::from_bytes(bytes).ok()?.to_bytes().ok()
        }
    })
    .ok()
    .flatten()
}

/// None: parse error. Some((verify_bindings ok, shape))
fn eval_cert(ctx: &mut Ctx, secret: bool, bytes: &[u8], rep: &dyn Fn() -> Value) -> Option<(bool, CSum)> {
    ctx.eval();
    let label = if secret { "certificate-tsk" } else { "certificate-tpk" };
    ctx.guarded(&format!("C02/{label}/verify_bindings"), || rep(), || {
        if secret {
            let k = SignedSecretKey::from_bytes(bytes).ok()?;
            let mut s = sum_details(&k.details);
            s.subs_pub = k.public_subkeys.iter().map(|x| x.signatures.len()).collect();
            s.subs_sec = k.secret_subkeys.iter().map(|x| x.signatures.len()).collect();
            Some((k.verify_bindings().is_ok(), s))
        } else {
            let k = SignedPublicKey::from_bytes(bytes).ok()?;
            let mut s = sum_details(&k.details);
            s.subs_pub = k.public_subkeys.iter().map(|x| x.signatures.len()).collect();
            Some((k.verify_bindings().is_ok(), s))
        }
    })
    .flatten()
}

/// A zoo certificate enriched with a user attribute, revocations (0x20, 0x28, 0x30), a v4 direct
/// key signature and a signing-subkey binding whose back signature sits in the unhashed area.
fn build_cert(ctx: &mut Ctx, spec: &Spec, kidx: u64, secret: bool, enrich: bool, rng: &mut ChaCha8Rng) -> Result<CObj, String> {
    let mut key = zoo::key(spec, kidx);
    let pw = Password::empty();
    let prim = key.primary_key.public_key().clone();
    if enrich {
        if let Some(j) = sign_sub_index(&key) {
            // a refreshed binding next to the original one: both carry a back signature, one of them is
            // not the latest
            let s = remake_sign_binding(rng, &key, j)?;
            key.secret_subkeys[j].signatures.push(s);
        }
        if let Some(j) = enc_sub_index(&key) {
            let s = cfg_for(rng, &key.primary_key, SignatureType::SubkeyRevocation, vec![])?
                .sign_subkey_binding(&key.primary_key, &prim, &pw, key.secret_subkeys[j].key.public_key())
                .map_err(es("sign 0x28"))?;
            key.secret_subkeys[j].signatures.push(s);
        }
        let rev = cfg_for(rng, &key.primary_key, SignatureType::KeyRevocation, vec![])?
            .sign_key(&key.primary_key, &pw, &prim)
            .map_err(es("sign 0x20"))?;
        key.details.revocation_signatures.push(rev);
        if key.details.direct_signatures.is_empty() {
            let d = cfg_for(rng, &key.primary_key, SignatureType::Key, vec![])?
                .sign_key(&key.primary_key, &pw, &prim)
                .map_err(es("sign 0x1f"))?;
            key.details.direct_signatures.push(d);
        }
        if let Some(u) = key.details.users.last_mut() {
            let r = cfg_for(rng, &key.primary_key, SignatureType::CertRevocation, vec![])?
                .sign_certification(&key.primary_key, &prim, &pw, Tag::UserId, &u.id)
                .map_err(es("sign 0x30"))?;
            u.signatures.push(r);
        }
        let at = UserAttribute::new_image(Bytes::from_static(b"\xff\xd8\xff\xe0jpeg?\xff\xd9")).map_err(es("attr"))?;
        let s = cfg_for(rng, &key.primary_key, SignatureType::CertPositive, vec![])?
            .sign_certification(&key.primary_key, &prim, &pw, Tag::UserAttribute, &at)
            .map_err(es("sign attr"))?;
        key.details.user_attributes.push(SignedUserAttribute::new(at, vec![s]));
    }
    let bytes = if secret { key.to_bytes() } else { key.to_public_key().to_bytes() }.map_err(es("ser"))?;
    let pkts = deframe(&bytes)?;
    // reference structure of the certificate
    let mut comps: Vec<Comp> = vec![];
    let (mut nu, mut na, mut np, mut ns) = (0, 0, 0, 0);
    for (i, p) in pkts.iter().enumerate() {
        if !p.partial_chunks.is_empty() || p.indeterminate {
            return Err("certificate uses partial framing".into());
        }
        let kind = match p.tag {
            6 | 5 if i == 0 => Some(CK::Primary),
            13 => { nu += 1; Some(CK::Uid(nu - 1)) }
            17 => { na += 1; Some(CK::Attr(na - 1)) }
            14 => { np += 1; Some(CK::SubPub(np - 1)) }
            7 => { ns += 1; Some(CK::SubSec(ns - 1)) }
            2 => None,
            t => return Err(format!("unexpected packet tag {t} in certificate")),
        };
        match kind {
            Some(k) => comps.push(Comp { kind: k, pkt: i, sigs: vec![], sign: false }),
            None => {
                let c = comps.last_mut().ok_or("signature before key")?;
                c.sigs.push(i);
                if let Ok(rs) = parse_sig(&p.body) {
                    if let Ok(sps) = parse_subpackets(&rs.hashed) {
                        if rs.typ == 0x18 && sps.iter().any(|s| s.typ == 27 && s.body.first().is_some_and(|b| b & 2 != 0)) {
                            c.sign = true;
                        }
                    }
                }
            }
        }
    }
    // the library lists user ids before attributes; the serialisation follows that order, so
    // the reference indices are list positions
    let rep = || json!({"cert": hexs(&bytes)});
    let Some((ok, base)) = eval_cert(ctx, secret, &bytes, &rep) else {
        return Err("baseline certificate does not parse".into());
    };
    if !ok {
        return Err("baseline certificate does not verify".into());
    }
    for c in &comps {
        if base.count(c.kind) != Some(c.sigs.len()) {
            return Err(format!("library and reference disagree on the signatures of {:?}: {:?} vs {}", c.kind, base.count(c.kind), c.sigs.len()));
        }
    }
    Ok(CObj {
        name: format!("{}|{}|{}", if secret { "tsk" } else { "tpk" }, spec.name(), if enrich { "enriched" } else { "plain" }),
        secret,
        version: if spec.v6 { 6 } else { 4 },
        bytes,
        pkts,
        comps,
        base,
    })
}

impl CObj {
    fn splice(&self, k: usize, body: &[u8]) -> Vec<u8> {
        let p = &self.pkts[k];
        let mut out = self.bytes[..p.offset].to_vec();
        out.extend(frame(p.tag, body, &LenForm::NewMin).expect("frame"));
        out.extend_from_slice(&self.bytes[p.offset + p.encoded_len..]);
        out
    }
}

/// (component index, Some(sig slot) when a signature packet is perturbed, packet, pert)
type CPert = (usize, Option<usize>, usize, Pert);

fn cert_perts(c: &CObj, bytesubs: usize, rng: &mut ChaCha8Rng) -> Result<Vec<CPert>, String> {
    let mut out: Vec<CPert> = vec![];
    for (ci, comp) in c.comps.iter().enumerate() {
        let body = &c.pkts[comp.pkt].body;
        match comp.kind {
            CK::Primary | CK::SubPub(_) | CK::SubSec(_) => {
                let (_, used) = RefPub::parse_prefix(body).ok_or("reference cannot parse key packet")?;
                for p in key_perts(&body[..used], true, bytesubs, rng)? {
                    out.push((ci, None, comp.pkt, p));
                }
                // secret part: not signed
                let mut v = vec![];
                let n = (body.len() - used).min(24);
                add_flips(&mut v, "secret-part", Req::Either, used, n, &|_| "secret-part".into());
                out.extend(v.into_iter().map(|p| (ci, None, comp.pkt, p)));
            }
            CK::Uid(_) | CK::Attr(_) => {
                let mut v = vec![];
                let ad = attr_detail(body);
                let is_attr = matches!(comp.kind, CK::Attr(_));
                add_flips(&mut v, "id", Req::Must, 0, body.len(), &|i| if is_attr { ad[i].clone() } else { "id".into() });
                if matches!(comp.kind, CK::Uid(_)) {
                    v.push(Pert { region: "id-trunc", detail: "id-trunc".into(), req: Req::Must, op: Op::Del(body.len() - 1, 1) });
                    v.push(Pert { region: "id-extend", detail: "id-extend".into(), req: Req::Must, op: Op::Ins(body.len(), vec![b'.']) });
                }
                out.extend(v.into_iter().map(|p| (ci, None, comp.pkt, p)));
            }
        }
        for (si, pk) in comp.sigs.iter().enumerate() {
            let so = SigOpts { full_header: true, bytesubs };
            for mut p in sig_perts(&c.pkts[*pk].body, &so, rng)? {
                if p.req == Req::Backsig {
                    p.req = if comp.sign { Req::Must } else { Req::Either };
                }
                out.push((ci, Some(si), *pk, p));
            }
        }
    }
    // transplants: the first signature of one component put in place of the first signature of
    // another one (a signature certifies only the component it was made over)
    for a in 0..c.comps.len() {
        for b in 0..c.comps.len() {
            if a == b || c.comps[a].sigs.is_empty() || c.comps[b].sigs.is_empty() {
                continue;
            }
            let from = &c.pkts[c.comps[b].sigs[0]].body;
            out.push((a, Some(0), c.comps[a].sigs[0], Pert {
                region: "transplant",
                detail: "transplant".into(),
                req: Req::Must,
                op: Op::Replace(from.clone()),
            }));
        }
    }
    // packet framing octets
    for (ci, comp) in c.comps.iter().enumerate() {
        for pk in std::iter::once(&comp.pkt).chain(comp.sigs.iter()) {
            let p = &c.pkts[*pk];
            let h = p.encoded_len - p.body.len();
            for i in 0..h {
                for bit in 0..8 {
                    out.push((ci, None, usize::MAX, Pert {
                        region: "framing",
                        detail: "framing".into(),
                        req: Req::Either,
                        op: Op::Xor(p.offset + i, 1 << bit),
                    }));
                }
            }
        }
    }
    Ok(out)
}

const CGROUPS: u64 = 32;

fn run_cobj(ctx: &mut Ctx, idx: u64, spec: &Spec, kidx: u64, secret: bool, enrich: bool) {
    let mut obj: Option<Result<(CObj, Vec<CPert>), String>> = None;
    let bytesubs = if is_slow_alg(&spec.primary) { 0 } else { ctx.qt(0usize, 2usize) };
    let label = if secret { "certificate-tsk" } else { "certificate-tpk" };
    let entry = if secret { "SignedSecretKey::verify_bindings" } else { "SignedPublicKey::verify_bindings" };
    for g in 0..CGROUPS {
        if !ctx.mine() {
            continue;
        }
        if obj.is_none() {
            let mut rng = ctx.rng("cobj", idx);
            obj = Some(build_cert(ctx, spec, kidx, secret, enrich, &mut rng).and_then(|c| {
                let p = cert_perts(&c, bytesubs, &mut rng)?;
                Ok((c, p))
            }));
        }
        let (c, perts) = match obj.as_ref().unwrap() {
            Ok(x) => x,
            Err(e) => {
                if g == 0 || ctx.only.is_some() {
                    ctx.inconclusive(format!("certificate object {idx}: {e}"));
                }
                return;
            }
        };
        describe_case(&format!("C02 certificate object {} group {g}", c.name));
        ctx.seen("objects", format!("{label}|v{}", c.version));
        for (pi, (ci, slot, pk, p)) in perts.iter().enumerate() {
            if group_of(*pk as u64, p, CGROUPS) != g {
                continue;
            }
            heartbeat("certificate object", &c.name, g, pi / CGROUPS as usize);
            let comp = &c.comps[*ci];
            let bytes = if *pk == usize::MAX { p.op.apply(&c.bytes) } else { c.splice(*pk, &p.op.apply(&c.pkts[*pk].body)) };
            let rep = || json!({"object": c.name, "component": format!("{:?}", comp.kind), "signature": slot, "region": p.detail, "op": p.op.json(), "cert": hexs(&bytes)});
            let r = eval_cert(ctx, c.secret, &bytes, &rep);
            let what = match (comp.kind, slot) {
                (_, Some(_)) => "sig",
                (CK::Primary, None) => "primary-key",
                (CK::Uid(_), None) => "uid",
                (CK::Attr(_), None) => "attr",
                (_, None) => "subkey",
            };
            let detail = if what == "sig" { p.detail.clone() } else { format!("{what}:{}", p.detail) };
            // still certified? verify_bindings Ok and the perturbed thing is present
            let accepted = match &r {
                None => false,
                Some((false, _)) => false,
                Some((true, s)) => match (comp.kind, slot) {
                    (CK::Primary, None) => s.total() > 0,
                    (k, None) => s.same_shape(&c.base) && s.count(k) == c.base.count(k),
                    (k, Some(_)) => s.same_shape(&c.base) && s.count(k) == c.base.count(k),
                },
            };
            match r {
                None => ctx.tally("cert.outcome.parse-error", 1),
                Some((false, _)) => ctx.tally("cert.outcome.verify-error", 1),
                Some((true, _)) if !accepted => ctx.tally("cert.outcome.component-dropped", 1),
                _ => ctx.tally("cert.outcome.ok", 1),
            }
            let lossy = || cert_reser(c.secret, &bytes).is_some_and(|x| Some(x) == cert_reser(c.secret, &c.bytes));
            judge(ctx, label, &c.name, true, p.req, &detail, &[(entry, accepted)], &rep, &lossy);
            ctx.cover(&(&c.name, pk, p.region, cover_pos(&p.op)));
            ctx.tally(&format!("flips.cert.{what}.{}", p.region), 1);
            if p.req != Req::Either {
                ctx.seen("cells", format!("{label}|v{}|{what}.{}", c.version, p.region));
            }
        }
        if g == 0 && idx % 2 == 0 {
            ctx.sample(json!({"family": "certificate", "object": c.name, "perturbations": perts.len(), "components": c.comps.iter().map(|x| format!("{:?}+{}sigs", x.kind, x.sigs.len())).collect::<Vec<_>>(), "cert": hexs(&c.bytes)}));
        }
    }
}

// ==========================================================================================
// workload

fn enc_for(a: &Alg) -> Alg {
    match a {
        Alg::Ed25519Legacy => Alg::EcdhCv25519,
        Alg::Ed25519 => Alg::X25519,
        Alg::Ed448 => Alg::X448,
        Alg::EcdsaP256 | Alg::EcdsaK256 => Alg::EcdhP256,
        Alg::EcdsaP384 => Alg::EcdhP384,
        Alg::EcdsaP521 => Alg::EcdhP521,
        _ => Alg::Rsa2048,
    }
}

/// combinations the library documents as rejected (hash too weak for the key)
fn hash_ok(a: &Alg, h: HashAlgorithm) -> bool {
    let bits = match h {
        HashAlgorithm::Sha224 => 224,
        HashAlgorithm::Sha256 | HashAlgorithm::Sha3_256 => 256,
        HashAlgorithm::Sha384 => 384,
        _ => 512,
    };
    let min = match a {
        Alg::Ed448 | Alg::EcdsaP521 => 512,
        Alg::EcdsaP384 => 384,
        Alg::Rsa2048 | Alg::Dsa2048 => 0,
        _ => 256,
    };
    bits >= min
}

fn data_objects(quick: bool) -> Vec<DataSpec> {
    use HashAlgorithm::{Sha224, Sha256, Sha384, Sha3_256, Sha3_512, Sha512};
    let d = |v6: bool, a: Alg, text: bool, hash: HashAlgorithm, sp: SpMode, c: usize| {
        let spec = if a == Alg::Rsa2048 { Spec::simple(v6, a, Some(Alg::Rsa2048)) } else { Spec::simple(v6, a, None) };
        DataSpec { spec, kidx: 0, text, hash, sp, content: data_contents(c) }
    };
    let mut v = vec![
        d(false, Alg::Ed25519Legacy, false, Sha256, SpMode::Default, 0),
        d(false, Alg::Ed25519Legacy, true, Sha512, SpMode::Rich, 1),
        d(true, Alg::Ed25519, false, Sha512, SpMode::Default, 0),
        d(true, Alg::Ed25519, true, Sha256, SpMode::Rich, 1),
        d(true, Alg::Ed448, true, Sha512, SpMode::Default, 2),
        d(false, Alg::EcdsaP256, false, Sha256, SpMode::Bare, 3),
        d(true, Alg::EcdsaP256, true, Sha3_256, SpMode::Default, 1),
        d(true, Alg::EcdsaP384, false, Sha384, SpMode::Default, 0),
        d(false, Alg::EcdsaP521, true, Sha512, SpMode::Default, 2),
        d(false, Alg::EcdsaK256, false, Sha256, SpMode::Default, 3),
        d(false, Alg::Rsa2048, true, Sha256, SpMode::Rich, 1),
        d(true, Alg::Rsa2048, false, Sha512, SpMode::Bare, 0),
        d(false, Alg::Dsa2048, false, Sha256, SpMode::Default, 3),
        d(true, Alg::Ed25519, false, Sha3_256, SpMode::Bare, 3),
        d(false, Alg::Rsa2048, false, Sha224, SpMode::Default, 0),
        d(false, Alg::Ed25519Legacy, true, Sha384, SpMode::Bare, 2),
        d(false, Alg::Ed25519Legacy, true, Sha256, SpMode::Default, 100),
        d(true, Alg::Ed25519, true, Sha512, SpMode::Default, 101),
    ];
    if !quick {
        v.push(d(false, Alg::Ed448, false, Sha3_512, SpMode::Bare, 3));
        v.push(d(true, Alg::Ed25519, true, Sha256, SpMode::Bare, 102));
        v.push(d(false, Alg::Ed25519Legacy, true, Sha512, SpMode::Default, 103));
        let hashes = [Sha256, Sha384, Sha512, Sha224, Sha3_256, Sha3_512];
        let mut i = 0usize;
        for spec in zoo::signer_specs(true) {
            for (hi, h) in hashes.iter().enumerate() {
                // every (key, hash) pair once; text/binary, subpacket mode, content rotate
                if (spec.primary.is_slow() && hi % 2 == 1) || !hash_ok(&spec.primary, *h) {
                    continue;
                }
                i += 1;
                let sp = [SpMode::Default, SpMode::Bare, SpMode::Rich][i % 3];
                let mut ds = d(spec.v6, spec.primary.clone(), i % 2 == 0, *h, sp, i / 2);
                ds.kidx = if spec.primary.is_slow() { 0 } else { 1 + (i % 2) as u64 };
                v.push(ds);
            }
        }
    }
    v
}

fn certsig_objects(quick: bool) -> Vec<(Spec, u64, CertSig)> {
    use CertSig::*;
    let a = cert_spec(false, Alg::Ed25519Legacy, Alg::EcdhCv25519, Some(Alg::Ed25519Legacy));
    let b = cert_spec(true, Alg::Ed25519, Alg::X25519, Some(Alg::Ed25519));
    let c = cert_spec(false, Alg::EcdsaP256, Alg::EcdhP256, Some(Alg::EcdsaP256));
    let d = cert_spec(true, Alg::Ed448, Alg::X448, Some(Alg::Ed448));
    let e = Spec::simple(false, Alg::Rsa2048, Some(Alg::Rsa2048));
    let f = Spec::simple(true, Alg::Rsa2048, Some(Alg::Rsa2048));
    let all_a = [UidPositive, UidMade(0x10), UidMade(0x30), UidThird(0x12), Attr, SubEnc, SubSign, SubSignUnhashed, Back, SubRevocation, Direct, DirectThird, KeyRevocation, KeyRevocationThird];
    let all_b = [UidPositive, UidMade(0x11), UidMade(0x12), UidThird(0x10), UidThird(0x30), Attr, SubEnc, SubSign, SubSignUnhashed, Back, SubRevocation, Direct, DirectThird, KeyRevocation];
    let mut v: Vec<(Spec, u64, CertSig)> = vec![];
    v.extend(all_a.iter().map(|w| (a.clone(), 0, *w)));
    v.extend(all_b.iter().map(|w| (b.clone(), 0, *w)));
    v.extend([UidPositive, SubEnc, SubSignUnhashed, Back, KeyRevocation].iter().map(|w| (c.clone(), 0, *w)));
    v.extend([UidPositive, Back].iter().map(|w| (d.clone(), 0, *w)));
    if !quick {
        v.extend([SubEnc, Direct, SubSignUnhashed, KeyRevocation].iter().map(|w| (d.clone(), 0, *w)));
    }
    v.extend([UidPositive, SubEnc, Direct].iter().map(|w| (e.clone(), 0, *w)));
    v.extend([UidPositive, SubEnc, Direct].iter().map(|w| (f.clone(), 0, *w)));
    if !quick {
        for alg in Alg::signers() {
            if alg.is_slow() {
                continue;
            }
            for v6 in [false, true] {
                if (v6 && alg.v4_only()) || (!v6 && alg == Alg::Ed25519 && false) {
                    continue;
                }
                let enc = enc_for(&alg);
                if (v6 && enc.v4_only()) || (v6 && alg == Alg::Ed25519Legacy) {
                    continue;
                }
                let s = cert_spec(v6, alg.clone(), enc, Some(alg.clone()));
                if is_slow_alg(&alg) {
                    // expensive public-key operations: the kinds that differ in what is hashed
                    for (i, w) in [UidPositive, UidThird(0x11), SubSignUnhashed, Back, KeyRevocation].iter().enumerate() {
                        v.push((s.clone(), 1 + (i % 2) as u64, *w));
                    }
                    continue;
                }
                for (i, w) in all_a.iter().chain(all_b[1..5].iter()).enumerate() {
                    v.push((s.clone(), 1 + (i % 2) as u64, *w));
                }
            }
        }
    }
    v
}

fn msg_objects(quick: bool) -> Vec<MsgSpec> {
    use HashAlgorithm::{Sha224, Sha256, Sha384, Sha3_256, Sha3_512, Sha512};
    let s = |v6: bool, a: Alg| if a == Alg::Rsa2048 { Spec::simple(v6, a, Some(Alg::Rsa2048)) } else { Spec::simple(v6, a, None) };
    let m = |signers: Vec<(Spec, HashAlgorithm)>, text: bool, prefixed: bool, c: &[u8]| MsgSpec { signers, text, prefixed, content: c.to_vec() };
    let nolf = b"no line endings in here: 0123456789";
    let lf = b"first line\nsecond line\r\nthird";
    let mut v = vec![
        m(vec![(s(false, Alg::Ed25519Legacy), Sha256)], false, false, nolf),
        m(vec![(s(true, Alg::Ed25519), Sha512)], false, false, nolf),
        m(vec![(s(false, Alg::Ed25519Legacy), Sha256), (s(false, Alg::EcdsaP256), Sha512)], true, false, lf),
        m(vec![(s(false, Alg::Ed25519Legacy), Sha512), (s(true, Alg::Ed25519), Sha256), (s(false, Alg::EcdsaP256), Sha256)], false, false, nolf),
        m(vec![(s(true, Alg::Ed25519), Sha512), (s(true, Alg::EcdsaP256), Sha3_512)], true, false, lf),
        m(vec![(s(false, Alg::Ed25519Legacy), Sha256)], true, true, lf),
        m(vec![(s(true, Alg::Ed25519), Sha256), (s(false, Alg::Rsa2048), Sha256)], false, true, nolf),
        m(vec![(s(false, Alg::Rsa2048), Sha384)], true, false, lf),
    ];
    if !quick {
        let hashes = [Sha256, Sha384, Sha512, Sha224, Sha3_256, Sha3_512];
        let specs = zoo::signer_specs(true);
        for (i, sp) in specs.iter().enumerate() {
            let h = if hash_ok(&sp.primary, hashes[i % hashes.len()]) { hashes[i % hashes.len()] } else { Sha512 };
            v.push(m(vec![(sp.clone(), h)], i % 2 == 0, false, if i % 2 == 0 { lf } else { nolf }));
            let o = &specs[(i + 5) % specs.len()];
            v.push(m(vec![(sp.clone(), h), (o.clone(), if hash_ok(&o.primary, hashes[(i + 1) % 6]) { hashes[(i + 1) % 6] } else { Sha3_512 })], i % 2 == 1, i % 3 == 0, if i % 3 == 1 { lf } else { nolf }));
        }
    }
    v
}

const CSF_TEXT: &str = "Hello cleartext\n- dash line\n-second dash\ntrailing space \n\ttabbed\t\nlast line";

pub fn run(ctx: &mut Ctx) {
    let quick = ctx.quick();
    let t_run = crate::core::thread_cpu_s();
    let mut idx = 0u64;

    // ---- family 1: packet-level objects (data signatures)
    for ds in data_objects(quick) {
        idx += 1;
        let t0 = crate::core::thread_cpu_s();
        run_pobj(ctx, idx, &|rng| build_data(&ds, rng));
        ctx.tally("cpu_ms.data-signatures", ((crate::core::thread_cpu_s() - t0) * 1000.0) as u64);
    }
    // ---- family 2: packet-level certificate-forming signatures
    for (spec, kidx, which) in certsig_objects(quick) {
        idx += 1;
        let t0 = crate::core::thread_cpu_s();
        run_pobj(ctx, idx, &|rng| build_certsig(&spec, kidx, which, rng));
        ctx.tally("cpu_ms.certificate-forming-signatures", ((crate::core::thread_cpu_s() - t0) * 1000.0) as u64);
    }
    // ---- family 3: messages
    for ms in msg_objects(quick) {
        idx += 1;
        let t0 = crate::core::thread_cpu_s();
        run_mobj(ctx, idx, &ms);
        ctx.tally("cpu_ms.messages", ((crate::core::thread_cpu_s() - t0) * 1000.0) as u64);
    }
    // ---- family 4: cleartext
    let mut csf = vec![
        (Spec::simple(false, Alg::Ed25519Legacy, None), HashAlgorithm::Sha256),
        (Spec::simple(true, Alg::Ed25519, None), HashAlgorithm::Sha512),
        (Spec::simple(false, Alg::EcdsaP256, None), HashAlgorithm::Sha256),
    ];
    if !quick {
        csf.push((Spec::simple(true, Alg::Ed448, None), HashAlgorithm::Sha3_512));
        csf.push((Spec::simple(false, Alg::Rsa2048, None), HashAlgorithm::Sha384));
        csf.push((Spec::simple(true, Alg::EcdsaP384, None), HashAlgorithm::Sha384));
        csf.push((Spec::simple(false, Alg::EcdsaK256, None), HashAlgorithm::Sha512));
    }
    for (spec, h) in csf {
        idx += 1;
        let t0 = crate::core::thread_cpu_s();
        run_kobj(ctx, idx, &spec, h, CSF_TEXT);
        ctx.tally("cpu_ms.cleartext", ((crate::core::thread_cpu_s() - t0) * 1000.0) as u64);
    }
    // ---- family 5: whole certificates
    let a = cert_spec(false, Alg::Ed25519Legacy, Alg::EcdhCv25519, Some(Alg::Ed25519Legacy));
    let b = cert_spec(true, Alg::Ed25519, Alg::X25519, Some(Alg::Ed25519));
    let c = cert_spec(false, Alg::EcdsaP256, Alg::EcdhP256, Some(Alg::EcdsaP256));
    let d = cert_spec(true, Alg::Ed448, Alg::X448, None);
    let e = Spec::simple(false, Alg::Rsa2048, Some(Alg::Rsa2048));
    let mut certs: Vec<(Spec, u64, bool, bool)> = vec![
        (a.clone(), 0, false, true),
        (b.clone(), 0, false, true),
        (a.clone(), 0, true, true),
        (b.clone(), 0, true, true),
        (c.clone(), 0, false, false),
        (c.clone(), 0, true, true),
        (e.clone(), 0, false, false),
    ];
    let _ = &d;
    if !quick {
        for alg in Alg::signers() {
            if alg.is_slow() {
                continue;
            }
            for v6 in [false, true] {
                let enc = enc_for(&alg);
                if (v6 && (alg.v4_only() || enc.v4_only())) || (v6 && alg == Alg::Ed25519Legacy) {
                    continue;
                }
                let s = cert_spec(v6, alg.clone(), enc, Some(alg.clone()));
                if is_slow_alg(&alg) {
                    // one certificate per slow algorithm (v6 public, v4 secret alternate)
                    if v6 {
                        certs.push((s, 1, alg == Alg::EcdsaP384, true));
                    }
                    continue;
                }
                certs.push((s.clone(), 1, false, true));
                certs.push((s, 2, true, true));
            }
        }
        certs.push((Spec::simple(true, Alg::Rsa2048, Some(Alg::Rsa2048)), 0, false, true));
        certs.push((e, 0, true, true));
        certs.push((Spec::simple(false, Alg::Dsa2048, None), 0, false, true));
    }
    for (spec, kidx, secret, enrich) in certs {
        idx += 1;
        let t0 = crate::core::thread_cpu_s();
        run_cobj(ctx, idx, &spec, kidx, secret, enrich);
        ctx.tally("cpu_ms.certificates", ((crate::core::thread_cpu_s() - t0) * 1000.0) as u64);
    }
    ctx.extra.insert("objects_total".into(), json!(idx));
    let sh = ctx.shard;
    ctx.tally(&format!("shard_cpu_ms.{sh:02}"), ((crate::core::thread_cpu_s() - t_run) * 1000.0) as u64);
}
