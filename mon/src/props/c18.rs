//! C18 — recipients: every intended recipient can decrypt, nobody else gets plaintext.
//!
//! Ground truth is known by construction (who was a recipient, which session key each ESK packet
//! carries, what the payload is); the oracle compares what the public decryption entry points
//! return with that truth. The reference (`rfc`) is used for packet surgery (deframe / reframe,
//! recipient-field patching) and to classify SKESK v4 false accepts.

use pgp::composed::{
    DecryptionOptions, Message, MessageBuilder, PlainSessionKey, RingResult, SignedSecretKey,
    TheRing,
};
use pgp::crypto::aead::{AeadAlgorithm, ChunkSize};
use pgp::crypto::hash::HashAlgorithm;
use pgp::crypto::sym::SymmetricKeyAlgorithm;
use pgp::types::{KeyDetails, Password, S2kParams, Seipdv1ReadMode, StringToKey};
use rand::seq::SliceRandom;
use rand::{Rng, RngCore};
use rand_chacha::ChaCha8Rng;
use serde_json::{json, Value};

use crate::core::{hexs, Ctx};
use crate::rfc;
use crate::rfc::frame::LenForm;
use crate::shim::{drain_read, Consume};
use crate::zoo;

// ------------------------------------------------------------------------------------------
// key pool

struct PoolKey {
    /// e.g. "EcdhP256/k4"
    label: String,
    v6: bool,
    is_rsa: bool,
    /// encrypt to the primary key (RSA primary without subkeys) instead of subkey 0
    enc_primary: bool,
    plain: SignedSecretKey,
    /// every secret packet locked with `kpw`
    locked: SignedSecretKey,
    /// encryption-relevant packet locked with `kpw`, the other secret packets with another password
    split: SignedSecretKey,
    /// unlocked, with foreign encryption subkeys placed in front of the real ones
    extra: SignedSecretKey,
    /// only the encryption-relevant packet locked (with `kpw`), the other secret packets unlocked
    half_locked: SignedSecretKey,
    /// the encryption-relevant packet unlocked, the other secret packets locked with another password
    half_plain: SignedSecretKey,
    kpw: String,
    /// recipient identifiers of the encryption (sub)key
    key_id: Vec<u8>,
    fpr: Vec<u8>,
}

struct Pool {
    keys: Vec<PoolKey>,
    /// index of a different key of the same algorithm and key version (if any)
    twin: Vec<Option<usize>>,
}

fn cheap_s2k(rng: &mut ChaCha8Rng, variant: usize) -> S2kParams {
    if variant % 2 == 0 {
        let mut iv = vec![0u8; 16];
        rng.fill_bytes(&mut iv);
        S2kParams::Cfb {
            sym_alg: SymmetricKeyAlgorithm::AES128,
            s2k: StringToKey::new_iterated(&mut *rng, HashAlgorithm::Sha256, 0),
            iv: iv.into(),
        }
    } else {
        let mut nonce = vec![0u8; 15];
        rng.fill_bytes(&mut nonce);
        S2kParams::Aead {
            sym_alg: SymmetricKeyAlgorithm::AES128,
            aead_mode: AeadAlgorithm::Ocb,
            s2k: StringToKey::new_argon2(&mut *rng, 1, 1, 3),
            nonce: nonce.into(),
        }
    }
}

fn lock_key(
    k: &SignedSecretKey,
    pw_primary: &str,
    pw_sub: &str,
    rng: &mut ChaCha8Rng,
    variant: usize,
) -> SignedSecretKey {
    let mut k = k.clone();
    k.primary_key
        .set_password_with_s2k(&pw_primary.into(), cheap_s2k(rng, variant))
        .expect("lock primary");
    for s in k.secret_subkeys.iter_mut() {
        s.key
            .set_password_with_s2k(&pw_sub.into(), cheap_s2k(rng, variant + 1))
            .expect("lock subkey");
    }
    k
}

impl Pool {
    fn new() -> Pool {
        let mut specs: Vec<(zoo::Spec, u64)> = vec![];
        for s in zoo::encryptor_specs(true) {
            specs.push((s.clone(), 0));
        }
        // second instance of every fast algorithm (same-algorithm non-recipients)
        for s in zoo::encryptor_specs(false) {
            specs.push((s.clone(), 1));
        }
        // RSA primary keys that encrypt with the primary key itself (cached in the zoo)
        specs.push((zoo::Spec::simple(false, zoo::Alg::Rsa2048, None), 0));
        specs.push((zoo::Spec::simple(true, zoo::Alg::Rsa2048, None), 0));
        // donors of foreign subkeys (never recipients)
        let donor_x = zoo::key(&zoo::Spec::simple(false, zoo::Alg::Ed25519Legacy, Some(zoo::Alg::X25519)), 7);
        let mut keys = vec![];
        for (n, (spec, idx)) in specs.iter().enumerate() {
            let plain = zoo::key(spec, *idx);
            let enc_primary = spec.enc_sub.is_none();
            let alg = spec.enc_sub.clone().unwrap_or(spec.primary.clone());
            let is_rsa = alg == zoo::Alg::Rsa2048;
            let label = format!(
                "{:?}{}/k{}",
                alg,
                if enc_primary { "-primary" } else { "" },
                if spec.v6 { 6 } else { 4 }
            );
            let kpw = format!("key-pw-{n}");
            let mut rng = Ctx::fixed_rng("c18.lock", n as u64);
            let locked = lock_key(&plain, &kpw, &kpw, &mut rng, n);
            let other = format!("other-{kpw}");
            let split = if enc_primary {
                lock_key(&plain, &kpw, &other, &mut rng, n + 1)
            } else {
                lock_key(&plain, &other, &kpw, &mut rng, n + 1)
            };
            // mixed protection: primary and subkeys differ in whether they are locked at all
            let (half_locked, half_plain) = {
                let mut hl = plain.clone();
                let mut hp = plain.clone();
                if enc_primary {
                    hl.primary_key.set_password_with_s2k(&kpw.as_str().into(), cheap_s2k(&mut rng, n)).expect("lock primary");
                    for s in hp.secret_subkeys.iter_mut() {
                        s.key.set_password_with_s2k(&other.as_str().into(), cheap_s2k(&mut rng, n)).expect("lock subkey");
                    }
                } else {
                    for s in hl.secret_subkeys.iter_mut() {
                        s.key.set_password_with_s2k(&kpw.as_str().into(), cheap_s2k(&mut rng, n)).expect("lock subkey");
                    }
                    hp.primary_key.set_password_with_s2k(&other.as_str().into(), cheap_s2k(&mut rng, n)).expect("lock primary");
                }
                (hl, hp)
            };
            let mut extra = plain.clone();
            let mut front = vec![donor_x.secret_subkeys[0].clone()];
            if !is_rsa && !enc_primary {
                let donor = zoo::key(spec, 7);
                front.push(donor.secret_subkeys[0].clone());
            }
            front.extend(extra.secret_subkeys.drain(..));
            extra.secret_subkeys = front;
            let (key_id, fpr) = if enc_primary {
                let p = plain.primary_key.public_key();
                (p.legacy_key_id().as_ref().to_vec(), p.fingerprint().as_bytes().to_vec())
            } else {
                let p = plain.secret_subkeys[0].key.public_key();
                (p.legacy_key_id().as_ref().to_vec(), p.fingerprint().as_bytes().to_vec())
            };
            keys.push(PoolKey {
                label,
                v6: spec.v6,
                is_rsa,
                enc_primary,
                plain,
                locked,
                split,
                extra,
                half_locked,
                half_plain,
                kpw,
                key_id,
                fpr,
            });
        }
        let mut twin = vec![None; keys.len()];
        for i in 0..keys.len() {
            for j in 0..keys.len() {
                if i != j && keys[i].label == keys[j].label {
                    twin[i] = Some(j);
                }
            }
        }
        Pool { keys, twin }
    }

    fn pick(&self, rng: &mut ChaCha8Rng) -> usize {
        loop {
            let i = rng.gen_range(0..self.keys.len());
            if self.keys[i].is_rsa && rng.gen_bool(0.6) {
                continue;
            }
            return i;
        }
    }

    /// a key that is not in `not`
    fn pick_other(&self, rng: &mut ChaCha8Rng, not: &[usize]) -> usize {
        loop {
            let i = self.pick(rng);
            if !not.contains(&i) {
                return i;
            }
        }
    }
}

// ------------------------------------------------------------------------------------------
// messages

const V1_CIPHERS: [SymmetricKeyAlgorithm; 11] = [
    SymmetricKeyAlgorithm::IDEA,
    SymmetricKeyAlgorithm::TripleDES,
    SymmetricKeyAlgorithm::CAST5,
    SymmetricKeyAlgorithm::Blowfish,
    SymmetricKeyAlgorithm::AES128,
    SymmetricKeyAlgorithm::AES192,
    SymmetricKeyAlgorithm::AES256,
    SymmetricKeyAlgorithm::Twofish,
    SymmetricKeyAlgorithm::Camellia128,
    SymmetricKeyAlgorithm::Camellia192,
    SymmetricKeyAlgorithm::Camellia256,
];
const V2_CIPHERS: [SymmetricKeyAlgorithm; 3] = [
    SymmetricKeyAlgorithm::AES128,
    SymmetricKeyAlgorithm::AES192,
    SymmetricKeyAlgorithm::AES256,
];
const AEADS: [AeadAlgorithm; 3] = [AeadAlgorithm::Eax, AeadAlgorithm::Ocb, AeadAlgorithm::Gcm];
const S2K_KINDS: [&str; 5] = ["salted", "iter0", "iter96-sha512", "argon2-min", "iter16-sha384"];

fn mk_s2k(kind: usize, rng: &mut ChaCha8Rng) -> StringToKey {
    match kind % S2K_KINDS.len() {
        0 => {
            let mut salt = [0u8; 8];
            rng.fill_bytes(&mut salt);
            StringToKey::Salted { hash_alg: HashAlgorithm::Sha256, salt }
        }
        1 => StringToKey::new_iterated(&mut *rng, HashAlgorithm::Sha256, 0),
        2 => StringToKey::new_iterated(&mut *rng, HashAlgorithm::Sha512, 96),
        3 => StringToKey::new_argon2(&mut *rng, 1, 1, 3),
        _ => StringToKey::new_iterated(&mut *rng, HashAlgorithm::Sha384, 16),
    }
}

#[derive(Clone)]
struct MsgSpec {
    v2: bool,
    sym: SymmetricKeyAlgorithm,
    aead: AeadAlgorithm,
    chunk: ChunkSize,
    /// (pool key, anonymous recipient)
    keys: Vec<(usize, bool)>,
    /// (password, s2k kind)
    pws: Vec<(String, usize)>,
    payload: Vec<u8>,
    forced_sk: Option<Vec<u8>>,
}

impl MsgSpec {
    fn new(v2: bool, sym: SymmetricKeyAlgorithm, payload: Vec<u8>) -> MsgSpec {
        MsgSpec {
            v2,
            sym,
            aead: AeadAlgorithm::Ocb,
            chunk: ChunkSize::default(),
            keys: vec![],
            pws: vec![],
            payload,
            forced_sk: None,
        }
    }

    fn shape(&self, pool: &Pool) -> String {
        let mut ks: Vec<String> = self
            .keys
            .iter()
            .map(|(k, a)| format!("{}{}", pool.keys[*k].label, if *a { "*" } else { "" }))
            .collect();
        ks.sort();
        let mut ps: Vec<&str> = self.pws.iter().map(|(_, k)| S2K_KINDS[*k % S2K_KINDS.len()]).collect();
        ps.sort();
        format!("{}|{}|{}", if self.v2 { "v2" } else { "v1" }, ks.join(","), ps.join(","))
    }
}

struct Built {
    bytes: Vec<u8>,
    sk: Vec<u8>,
}

macro_rules! add_recipients {
    ($b:ident, $pool:ident, $spec:ident, $rng:ident) => {{
        for (k, anon) in &$spec.keys {
            let pk = &$pool.keys[*k];
            let public = pk.plain.to_public_key();
            let r = match (pk.enc_primary, *anon) {
                (true, false) => $b.encrypt_to_key(&mut *$rng, &public.primary_key).map(|_| ()),
                (true, true) => $b.encrypt_to_key_anonymous(&mut *$rng, &public.primary_key).map(|_| ()),
                (false, false) => $b.encrypt_to_key(&mut *$rng, &public.public_subkeys[0].key).map(|_| ()),
                (false, true) => $b
                    .encrypt_to_key_anonymous(&mut *$rng, &public.public_subkeys[0].key)
                    .map(|_| ()),
            };
            r.map_err(|e| format!("encrypt_to_key {}: {e}", pk.label))?;
        }
    }};
}

/// Builds the message with the library's builder. Packet order: SKESKs, PKESKs, SEIPD.
fn build(pool: &Pool, spec: &MsgSpec, rng: &mut ChaCha8Rng) -> Result<Built, String> {
    let payload = spec.payload.clone();
    if spec.v2 {
        let mut b = MessageBuilder::from_bytes("", payload).seipd_v2(&mut *rng, spec.sym, spec.aead, spec.chunk);
        if let Some(sk) = &spec.forced_sk {
            b.set_session_key(sk.clone().into()).map_err(|e| format!("set_session_key: {e}"))?;
        }
        add_recipients!(b, pool, spec, rng);
        for (pw, kind) in &spec.pws {
            let s2k = mk_s2k(*kind, rng);
            b.encrypt_with_password(&mut *rng, s2k, &pw.as_str().into())
                .map_err(|e| format!("encrypt_with_password: {e}"))?;
        }
        let sk = b.session_key().as_ref().to_vec();
        let bytes = b.to_vec(&mut *rng).map_err(|e| format!("to_vec: {e}"))?;
        Ok(Built { bytes, sk })
    } else {
        let mut b = MessageBuilder::from_bytes("", payload).seipd_v1(&mut *rng, spec.sym);
        if let Some(sk) = &spec.forced_sk {
            b.set_session_key(sk.clone().into()).map_err(|e| format!("set_session_key: {e}"))?;
        }
        add_recipients!(b, pool, spec, rng);
        for (pw, kind) in &spec.pws {
            let s2k = mk_s2k(*kind, rng);
            b.encrypt_with_password(s2k, &pw.as_str().into())
                .map_err(|e| format!("encrypt_with_password: {e}"))?;
        }
        let sk = b.session_key().as_ref().to_vec();
        let bytes = b.to_vec(&mut *rng).map_err(|e| format!("to_vec: {e}"))?;
        Ok(Built { bytes, sk })
    }
}

/// (tag, body, raw encoded packet) of every packet of a message
fn split_packets(bytes: &[u8]) -> Result<Vec<(u8, Vec<u8>, Vec<u8>)>, String> {
    let pk = rfc::frame::deframe(bytes)?;
    Ok(pk
        .into_iter()
        .map(|p| (p.tag, p.body.clone(), bytes[p.offset..p.offset + p.encoded_len].to_vec()))
        .collect())
}

/// What is true about a message, by construction.
#[derive(Clone)]
struct Truth {
    v2: bool,
    payload: Vec<u8>,
    /// sks[0] is the session key of the data packet: (cipher id, raw key)
    sks: Vec<(u8, Vec<u8>)>,
    /// (pool key, index into sks): the key can recover that session key from some PKESK
    key_holders: Vec<(usize, usize)>,
    /// (password, index into sks)
    pw_holders: Vec<(String, usize)>,
    /// bodies of the v4 SKESK packets in the message
    skesk4: Vec<Vec<u8>>,
}

fn skesk4_bodies(bytes: &[u8]) -> Vec<Vec<u8>> {
    let mut out = vec![];
    if let Ok(p) = split_packets(bytes) {
        for (tag, body, _) in p {
            if tag == 3 && body.first() == Some(&4) {
                out.push(body);
            }
        }
    }
    out
}

impl Truth {
    fn of(spec: &MsgSpec, built: &Built) -> Truth {
        Truth {
            v2: spec.v2,
            payload: spec.payload.clone(),
            sks: vec![(u8::from(spec.sym), built.sk.clone())],
            key_holders: spec.keys.iter().map(|(k, _)| (*k, 0)).collect(),
            pw_holders: spec.pws.iter().map(|(p, _)| (p.clone(), 0)).collect(),
            skesk4: skesk4_bodies(&built.bytes),
        }
    }

    fn plain_sk(&self, i: usize) -> PlainSessionKey {
        let (alg, raw) = &self.sks[i];
        if self.v2 {
            PlainSessionKey::V6 { key: raw.clone().into() }
        } else {
            PlainSessionKey::V3_4 { sym_alg: SymmetricKeyAlgorithm::from(*alg), key: raw.clone().into() }
        }
    }
}

// ------------------------------------------------------------------------------------------
// presentations

#[derive(Clone, Copy, PartialEq, Eq, Hash, Debug)]
enum Api {
    Decrypt,
    WithKeys,
    WithPassword,
    WithSessionKey,
    Ring(bool),
}

impl Api {
    fn name(&self) -> &'static str {
        match self {
            Api::Decrypt => "decrypt",
            Api::WithKeys => "decrypt_with_keys",
            Api::WithPassword => "decrypt_with_password",
            Api::WithSessionKey => "decrypt_with_session_key",
            Api::Ring(true) => "ring-abort",
            Api::Ring(false) => "ring-noabort",
        }
    }
}

#[derive(Clone, Copy, PartialEq, Eq, Hash, Debug)]
enum Form {
    Plain,
    Locked,
    Split,
    Extra,
    HalfLocked,
    HalfPlain,
}
const FORMS: [Form; 6] = [Form::Plain, Form::Locked, Form::Split, Form::Extra, Form::HalfLocked, Form::HalfPlain];

#[derive(Clone)]
enum SkP {
    /// session key `i` of the truth (0 = the data key)
    Id(usize),
    /// a session key that is not the data key
    Wrong(&'static str, PlainSessionKey),
}

#[derive(Clone)]
struct Pres {
    api: Api,
    keys: Vec<(usize, Form)>,
    key_pws: Vec<String>,
    msg_pws: Vec<String>,
    sks: Vec<SkP>,
    streaming: bool,
}

impl Pres {
    fn new(api: Api) -> Pres {
        Pres { api, keys: vec![], key_pws: vec![], msg_pws: vec![], sks: vec![], streaming: false }
    }

    /// adds a key together with the key password its form needs
    fn with_key(mut self, pool: &Pool, k: usize, f: Form) -> Pres {
        self.keys.push((k, f));
        if matches!(f, Form::Locked | Form::Split | Form::HalfLocked) && !self.key_pws.contains(&pool.keys[k].kpw) {
            self.key_pws.push(pool.keys[k].kpw.clone());
        }
        self
    }

    fn with_pw(mut self, pw: &str) -> Pres {
        self.msg_pws.push(pw.to_string());
        self
    }

    fn with_sk(mut self, s: SkP) -> Pres {
        self.sks.push(s);
        self
    }

    fn json(&self, pool: &Pool) -> Value {
        json!({
            "api": self.api.name(),
            "keys": self.keys.iter().map(|(k, f)| format!("{}:{:?}", pool.keys[*k].label, f)).collect::<Vec<_>>(),
            "key_passwords": self.key_pws,
            "message_passwords": self.msg_pws,
            "session_keys": self.sks.iter().map(|s| match s {
                SkP::Id(i) => format!("truth#{i}"),
                SkP::Wrong(n, k) => format!("wrong:{n}:{}", match k {
                    PlainSessionKey::V3_4 { sym_alg, key } => format!("v3_4 alg={} key={}", u8::from(*sym_alg), hex::encode(key.as_ref())),
                    PlainSessionKey::V5 { key } => format!("v5 key={}", hex::encode(key.as_ref())),
                    PlainSessionKey::V6 { key } => format!("v6 key={}", hex::encode(key.as_ref())),
                }),
            }).collect::<Vec<_>>(),
            "streaming": self.streaming,
        })
    }
}

fn key_usable(pool: &Pool, k: usize, f: Form, key_pws: &[String]) -> bool {
    match f {
        Form::Plain | Form::Extra | Form::HalfPlain => true,
        Form::Locked | Form::Split | Form::HalfLocked => key_pws.iter().any(|p| *p == pool.keys[k].kpw),
    }
}

#[derive(Clone, Copy, PartialEq, Eq, Debug)]
enum Expect {
    /// an intended recipient secret is present and nothing conflicts: plaintext required
    MustPlain,
    /// no presented secret yields the data key: an error is required, never data
    MustFail,
    /// secrets disagree and cross-checking was requested: an error is required
    ConflictMustFail,
    /// either the right plaintext or an error (never wrong plaintext)
    PlainOrErr,
}

struct Judged {
    expect: Expect,
    /// P1..P4
    oracle: &'static str,
    /// presentation kind for signatures / coverage
    kind: String,
}

fn classify(pool: &Pool, t: &Truth, p: &Pres) -> Judged {
    // which session keys do the presented secrets yield?
    const WRONG: usize = usize::MAX;
    let mut derived: Vec<usize> = vec![];
    let mut flags = std::collections::BTreeSet::new();
    for (k, f) in &p.keys {
        let holder: Vec<usize> = t.key_holders.iter().filter(|(h, _)| h == k).map(|(_, s)| *s).collect();
        if holder.is_empty() {
            flags.insert('d');
        } else if key_usable(pool, *k, *f, &p.key_pws) {
            flags.insert(if matches!(f, Form::Locked | Form::Split | Form::HalfLocked) { 'K' } else { 'k' });
            derived.extend(holder);
        } else {
            flags.insert('L');
        }
    }
    let mut any_wrong_pw = false;
    for pw in &p.msg_pws {
        let holder: Vec<usize> = t.pw_holders.iter().filter(|(h, _)| h == pw).map(|(_, s)| *s).collect();
        if holder.is_empty() {
            flags.insert('w');
            any_wrong_pw = true;
        } else {
            flags.insert('p');
            derived.extend(holder);
        }
    }
    for s in &p.sks {
        match s {
            SkP::Id(i) => {
                flags.insert(if *i == 0 { 's' } else { 'o' });
                derived.push(*i);
            }
            SkP::Wrong(..) => {
                flags.insert('x');
                derived.push(WRONG);
            }
        }
    }
    let kind = format!("{}[{}]", p.api.name(), flags.iter().collect::<String>());
    let abort = p.api != Api::Ring(false);
    let has_v4_skesk = !t.skesk4.is_empty();
    let has_right = derived.iter().any(|d| *d == 0);
    let all_right = has_right && derived.iter().all(|d| *d == 0);
    let (expect, oracle) = if !has_right {
        // nothing presented yields the data key; when some secret yields *another* session key of a
        // spliced message this belongs to the conflict family
        (Expect::MustFail, if derived.iter().any(|d| *d != WRONG) { "P4" } else { "P2" })
    } else if abort && !p.sks.is_empty() {
        // abort_early: "the first available session key will be used, even if it might be wrong"
        match &p.sks[0] {
            SkP::Id(0) if all_right => (Expect::MustPlain, "P1"),
            SkP::Id(0) => (Expect::PlainOrErr, "P4"),
            _ => (Expect::PlainOrErr, "P4"),
        }
    } else if all_right {
        // unrelated passwords next to an SKESK v4 may be falsely accepted (no integrity): the
        // property requires success alongside unrelated passwords only for SKESK v6
        if has_v4_skesk && (p.msg_pws.len() >= 2 || any_wrong_pw) {
            (Expect::PlainOrErr, "P1")
        } else {
            (Expect::MustPlain, "P1")
        }
    } else if abort {
        (Expect::PlainOrErr, "P4")
    } else {
        (Expect::ConflictMustFail, "P4")
    };
    Judged { expect, oracle, kind }
}

enum Outcome {
    /// decrypt Ok and the message read to a clean EOF
    Plain(Vec<u8>),
    ErrParse(String),
    ErrDecrypt(String),
    ErrRead { err: String, released: usize },
}

impl Outcome {
    fn brief(&self) -> String {
        match self {
            Outcome::Plain(d) => format!("Ok, {} bytes read to EOF", d.len()),
            Outcome::ErrParse(e) => format!("Err at parse: {e}"),
            Outcome::ErrDecrypt(e) => format!("Err at decrypt: {e}"),
            Outcome::ErrRead { err, released } => format!("Err on read after {released} bytes: {err}"),
        }
    }
}

fn ring_json(r: &RingResult) -> Value {
    json!({
        "secret_keys": r.secret_keys.iter().map(|x| format!("{x:?}")).collect::<Vec<_>>(),
        "message_password": r.message_password.iter().map(|x| format!("{x:?}")).collect::<Vec<_>>(),
        "session_keys": r.session_keys.iter().map(|x| format!("{x:?}")).collect::<Vec<_>>(),
    })
}

/// Runs one presentation against the real API.
fn execute(ctx: &mut Ctx, pool: &Pool, t: &Truth, bytes: &[u8], p: &Pres, sigprefix: &str) -> Option<(Outcome, Option<Value>)> {
    let keys: Vec<&SignedSecretKey> = p
        .keys
        .iter()
        .map(|(k, f)| match f {
            Form::Plain => &pool.keys[*k].plain,
            Form::Locked => &pool.keys[*k].locked,
            Form::Split => &pool.keys[*k].split,
            Form::Extra => &pool.keys[*k].extra,
            Form::HalfLocked => &pool.keys[*k].half_locked,
            Form::HalfPlain => &pool.keys[*k].half_plain,
        })
        .collect();
    let key_pws: Vec<Password> = p.key_pws.iter().map(|s| Password::from(s.as_str())).collect();
    let msg_pws: Vec<Password> = p.msg_pws.iter().map(|s| Password::from(s.as_str())).collect();
    let sks: Vec<PlainSessionKey> = p
        .sks
        .iter()
        .map(|s| match s {
            SkP::Id(i) => t.plain_sk(*i),
            SkP::Wrong(_, k) => k.clone(),
        })
        .collect();
    ctx.eval();
    let replay = || json!({"message": hexs(bytes), "presentation": p.json(pool)});
    ctx.guarded(sigprefix, replay, || {
        let msg = match Message::from_bytes(bytes) {
            Ok(m) => m,
            Err(e) => return (Outcome::ErrParse(e.to_string()), None),
        };
        let empty = Password::empty();
        let mut ring_res = None;
        let res = match p.api {
            Api::Decrypt => msg.decrypt(key_pws.first().unwrap_or(&empty), keys[0]),
            Api::WithKeys => msg.decrypt_with_keys(key_pws.iter().collect(), keys.clone()),
            Api::WithPassword => msg.decrypt_with_password(&msg_pws[0]),
            Api::WithSessionKey => msg.decrypt_with_session_key(sks[0].clone()),
            Api::Ring(abort_early) => {
                let mut opts = DecryptionOptions::new();
                if p.streaming {
                    opts = opts.set_seipdv1_read_mode(Seipdv1ReadMode::Streaming);
                }
                let ring = TheRing {
                    secret_keys: keys.clone(),
                    key_passwords: key_pws.iter().collect(),
                    message_password: msg_pws.iter().collect(),
                    session_keys: sks.clone(),
                    decrypt_options: opts,
                };
                msg.decrypt_the_ring(ring, abort_early).map(|(m, r)| {
                    ring_res = Some(ring_json(&r));
                    m
                })
            }
        };
        match res {
            Err(e) => (Outcome::ErrDecrypt(e.to_string()), ring_res),
            Ok(mut m) => {
                let d = drain_read(&mut m, &Consume::ToEnd);
                match d.err {
                    None => (Outcome::Plain(d.data), ring_res),
                    Some(e) => (Outcome::ErrRead { err: e.to_string(), released: d.data.len() }, ring_res),
                }
            }
        }
    })
}

/// Does some presented password decrypt some SKESK v4 of the message, which was not made for it,
/// to a plausible (algorithm, key) pair? (reference computation)
fn skesk4_cross_accept(t: &Truth, p: &Pres) -> bool {
    for body in &t.skesk4 {
        for pw in &p.msg_pws {
            if let Some((alg, key)) = rfc::sym::skesk_v4_decrypt(body, pw.as_bytes()) {
                let plausible = alg != 0 && rfc::sym::key_size(alg) == Some(key.len());
                let is_known_key = t.sks.iter().any(|(a, k)| *a == alg && *k == key);
                if plausible && !is_known_key {
                    return true;
                }
            }
        }
    }
    false
}

#[derive(PartialEq, Eq, Debug, Clone, Copy)]
enum Verdict {
    Held,
    /// a non-recipient presentation was accepted (candidate for the 3x repeat rule)
    Accepted,
    Violated,
}

/// Executes and judges one presentation. Violations are recorded, except that with `defer_accept`
/// an accepted non-recipient presentation is only returned (the caller applies the repeat rule).
#[allow(clippy::too_many_arguments)]
fn check(
    ctx: &mut Ctx,
    pool: &Pool,
    t: &Truth,
    bytes: &[u8],
    p: &Pres,
    family: &str,
    shape: &str,
    defer_accept: bool,
) -> Verdict {
    let j = classify(pool, t, p);
    let sigp = format!("C18/{}/{}", j.oracle, j.kind);
    ctx.seen("presentation.kind", j.kind.clone());
    ctx.seen("api", p.api.name());
    ctx.tally(&format!("expect.{:?}", j.expect), 1);
    ctx.tally(&format!("oracle.{}", j.oracle), 1);
    let order: Vec<String> = p
        .keys
        .iter()
        .map(|(k, f)| format!("{}:{:?}", pool.keys[*k].label, f))
        .chain(p.msg_pws.iter().map(|w| (if t.pw_holders.iter().any(|(h, _)| h == w) { "pw" } else { "wrongpw" }).to_string()))
        .chain(p.sks.iter().map(|s| match s {
            SkP::Id(i) => format!("sk{i}"),
            SkP::Wrong(n, _) => format!("x-{n}"),
        }))
        .collect();
    ctx.cover(&(family, shape, p.api.name(), order, p.key_pws.len(), p.streaming));
    for (k, _) in &p.keys {
        if t.key_holders.iter().any(|(h, _)| h == k) {
            ctx.seen(
                "recipient-alg x esk x api",
                format!("{}|{}|{}", pool.keys[*k].label, if t.v2 { "pkesk6" } else { "pkesk3" }, p.api.name()),
            );
        }
    }
    let Some((out, ring)) = execute(ctx, pool, t, bytes, p, &sigp) else {
        return Verdict::Violated;
    };
    if let Some(r) = &ring {
        for grp in ["secret_keys", "message_password", "session_keys"] {
            for v in r[grp].as_array().unwrap() {
                ctx.seen("ring.result", format!("{grp}:{}", v.as_str().unwrap()));
            }
        }
        if ctx.samples.len() < 4 && (p.keys.len() + p.msg_pws.len() + p.sks.len()) >= 2 {
            ctx.sample(json!({"family": family, "shape": shape, "presentation": p.json(pool), "expect": format!("{:?}", j.expect),
                "outcome": out.brief(), "ring_result": r, "message": hexs(bytes)}));
        }
    }
    let replay = || {
        json!({"family": family, "shape": shape, "message": hexs(bytes), "payload": hexs(&t.payload),
               "presentation": p.json(pool), "expect": format!("{:?}", j.expect), "outcome": out.brief(), "ring_result": ring})
    };
    match (&out, j.expect) {
        (Outcome::ErrParse(e), _) => {
            ctx.violation(format!("C18/{}/parse-error", j.oracle), format!("message does not parse: {e}"), replay());
            Verdict::Violated
        }
        // wrong plaintext is never acceptable
        (Outcome::Plain(d), _) if *d != t.payload => {
            ctx.violation(
                format!("{sigp}/wrong-plaintext"),
                format!("decryption returned Ok and {} bytes that are not the payload ({} bytes)", d.len(), t.payload.len()),
                replay(),
            );
            Verdict::Violated
        }
        (Outcome::Plain(_), Expect::MustPlain) | (Outcome::Plain(_), Expect::PlainOrErr) => {
            ctx.tally("ok.plaintext", 1);
            Verdict::Held
        }
        (Outcome::Plain(_), Expect::MustFail) if p.sks.iter().any(|s| matches!(s, SkP::Wrong(CAST5_ZERO_TAIL, _))) => {
            ctx.violation(
                "C18/P2/cast5-truncated-session-key/plaintext",
                "a 15-octet session key was accepted for CAST5 (128-bit keys in OpenPGP) and decrypted the message: the session key length is not checked for SEIPDv1, and the cipher zero-pads short keys".to_string(),
                replay(),
            );
            Verdict::Violated
        }
        (Outcome::Plain(_), Expect::MustFail) => {
            if !defer_accept {
                ctx.violation(
                    format!("{sigp}/plaintext-to-nonrecipient"),
                    "no presented secret is an intended recipient secret, yet decryption returned the plaintext".to_string(),
                    replay(),
                );
            }
            Verdict::Accepted
        }
        (Outcome::Plain(_), Expect::ConflictMustFail) => {
            ctx.violation(
                format!("{sigp}/conflict-not-reported"),
                "presented secrets yield different session keys, abort_early=false, but decryption silently chose one".to_string(),
                replay(),
            );
            Verdict::Violated
        }
        (Outcome::ErrRead { released, .. }, e) if *released > 0 && e != Expect::MustPlain => {
            // default (CheckFirst / AEAD) decryption must not release anything before failing
            if p.streaming {
                ctx.tally("streaming.data-before-error", 1);
                Verdict::Held
            } else {
                ctx.violation(format!("{sigp}/data-before-error"), format!("{} bytes released before the error", released), replay());
                Verdict::Violated
            }
        }
        (_, Expect::MustPlain) => {
            if skesk4_cross_accept(t, p) {
                ctx.violation(
                    "C18/P1/skesk4-cross-accept/err",
                    format!(
                        "an intended password fails because it is also (falsely) accepted by another SKESK v4 of the message, whose bogus session key then conflicts: {}",
                        out.brief()
                    ),
                    replay(),
                );
            } else {
                ctx.violation(
                    format!("{sigp}/err"),
                    format!("an intended recipient secret was presented but decryption failed: {}", out.brief()),
                    replay(),
                );
            }
            Verdict::Violated
        }
        (_, Expect::PlainOrErr) => {
            ctx.tally("lenient.err", 1);
            Verdict::Held
        }
        (_, Expect::MustFail) | (_, Expect::ConflictMustFail) => {
            ctx.tally(if j.expect == Expect::MustFail { "ok.rejected" } else { "ok.conflict-reported" }, 1);
            if let (Outcome::ErrDecrypt(e), Expect::ConflictMustFail) = (&out, j.expect) {
                ctx.seen("conflict.error", if e.contains("inconsistent") { "inconsistent session keys" } else { "other error" });
            }
            Verdict::Held
        }
    }
}

// ------------------------------------------------------------------------------------------
// wrong secrets

fn wrong_password(rng: &mut ChaCha8Rng, near: Option<&str>) -> String {
    match (rng.gen_range(0..5), near) {
        (0, Some(p)) => format!("{p}x"),
        (1, Some(p)) if p.len() > 1 => p[..p.len() - 1].to_string(),
        (2, Some(p)) => p.to_uppercase(),
        (3, _) => String::new(),
        _ => format!("wrong-{:08x}", rng.gen::<u32>()),
    }
}

/// kind label of a 15-octet CAST5 session key whose missing 16th octet is zero
const CAST5_ZERO_TAIL: &str = "short-cast5-zero-tail";

const WRONG_SK_KINDS: [&str; 9] =
    ["flip", "random", "short", "long", "empty", "alg-same-size", "alg-other-size", "alg-invalid", "version"];

/// A session key that is not the data key, of the given kind.
fn wrong_sk(t: &Truth, kind: &'static str, rng: &mut ChaCha8Rng) -> SkP {
    let (alg, raw) = &t.sks[0];
    let mk = |a: u8, k: Vec<u8>| -> PlainSessionKey {
        if t.v2 {
            PlainSessionKey::V6 { key: k.into() }
        } else {
            PlainSessionKey::V3_4 { sym_alg: SymmetricKeyAlgorithm::from(a), key: k.into() }
        }
    };
    let k = match kind {
        "flip" => {
            let mut k = raw.clone();
            let i = rng.gen_range(0..k.len());
            // never the lowest bit: DES ignores the parity bit of every key octet
            k[i] ^= 1 << rng.gen_range(1..8);
            mk(*alg, k)
        }
        "random" => {
            let mut k = vec![0u8; raw.len()];
            rng.fill_bytes(&mut k);
            mk(*alg, k)
        }
        "short" => {
            // CAST5 takes 5..16 key octets and zero-pads: dropping a zero last octet leaves the
            // effective cipher key unchanged (tracked under its own signature, see `check`)
            if *alg == 3 && !t.v2 && raw.last() == Some(&0) {
                return SkP::Wrong(CAST5_ZERO_TAIL, mk(*alg, raw[..raw.len() - 1].to_vec()));
            }
            mk(*alg, raw[..raw.len() - 1].to_vec())
        }
        "long" => {
            let mut k = raw.clone();
            k.push(rng.gen());
            mk(*alg, k)
        }
        "empty" => mk(*alg, vec![]),
        "alg-same-size" => {
            // another cipher with the same key size (v1; for v2 the key version is changed instead)
            let other = rfc::sym::ALL_CIPHERS
                .iter()
                .copied()
                .find(|a| *a != *alg && rfc::sym::key_size(*a) == Some(raw.len()))
                .unwrap_or(7);
            if t.v2 {
                PlainSessionKey::V3_4 { sym_alg: SymmetricKeyAlgorithm::from(*alg), key: raw.clone().into() }
            } else {
                mk(other, raw.clone())
            }
        }
        "alg-other-size" => {
            let other = if raw.len() == 32 { 7u8 } else { 9u8 };
            if t.v2 {
                PlainSessionKey::V5 { key: raw.clone().into() }
            } else {
                mk(other, raw.clone())
            }
        }
        "alg-invalid" => {
            if t.v2 {
                PlainSessionKey::V3_4 { sym_alg: SymmetricKeyAlgorithm::Plaintext, key: raw.clone().into() }
            } else {
                mk(if rng.gen() { 0 } else { 99 }, raw.clone())
            }
        }
        _ => {
            // right bytes under the wrong session-key version
            if t.v2 {
                PlainSessionKey::V3_4 { sym_alg: SymmetricKeyAlgorithm::from(*alg), key: raw.clone().into() }
            } else if rng.gen() {
                PlainSessionKey::V6 { key: raw.clone().into() }
            } else {
                PlainSessionKey::V5 { key: raw.clone().into() }
            }
        }
    };
    SkP::Wrong(kind, k)
}

/// fresh wrong passwords / random wrong session keys at the same sites (3x repeat rule)
fn refresh(t: &Truth, p: &Pres, rng: &mut ChaCha8Rng) -> Pres {
    let mut q = p.clone();
    for w in q.msg_pws.iter_mut() {
        if !t.pw_holders.iter().any(|(h, _)| h == w) {
            *w = format!("fresh-{:016x}", rng.gen::<u64>());
        }
    }
    for s in q.sks.iter_mut() {
        if matches!(s, SkP::Wrong("flip" | "random", _)) {
            *s = wrong_sk(t, "random", rng);
        }
    }
    q
}

/// negative presentation with the repeat rule for events that are inherently possible with
/// probability about 2^-16 (SKESK v4 plausibility check + CFB quick check)
#[allow(clippy::too_many_arguments)]
fn check_negative(ctx: &mut Ctx, pool: &Pool, t: &Truth, bytes: &[u8], p: &Pres, family: &str, shape: &str, rng: &mut ChaCha8Rng) {
    let has_random = p.msg_pws.iter().any(|w| !t.pw_holders.iter().any(|(h, _)| h == w))
        || p.sks.iter().any(|s| matches!(s, SkP::Wrong("flip" | "random", _)));
    let v = check(ctx, pool, t, bytes, p, family, shape, has_random);
    if v == Verdict::Accepted && has_random {
        let mut all = true;
        for _ in 0..3 {
            let q = refresh(t, p, rng);
            if check(ctx, pool, t, bytes, &q, family, shape, true) != Verdict::Accepted {
                all = false;
                break;
            }
        }
        if all {
            // reproduced three times with fresh wrong secrets: report through the normal path
            check(ctx, pool, t, bytes, p, family, shape, false);
        } else {
            ctx.tally("p2.accept-not-reproduced", 1);
        }
    }
}

// ------------------------------------------------------------------------------------------
// family A: random recipient sets, all subsets / orderings of presented secrets, decoys alongside,
// non-recipient presentations

fn gen_payload(rng: &mut ChaCha8Rng) -> Vec<u8> {
    let len = match rng.gen_range(0..20) {
        0 => 0,
        1 => 1,
        2..=8 => rng.gen_range(2..64),
        9..=15 => rng.gen_range(64..400),
        16..=18 => rng.gen_range(400..3000),
        _ => rng.gen_range(3000..9000),
    };
    let mut v = vec![0u8; len];
    rng.fill_bytes(&mut v);
    v
}

/// all ordered selections (permutations of non-empty subsets) of 0..n
fn ordered_subsets(n: usize) -> Vec<Vec<usize>> {
    fn rec(n: usize, cur: &mut Vec<usize>, out: &mut Vec<Vec<usize>>) {
        if !cur.is_empty() {
            out.push(cur.clone());
        }
        for i in 0..n {
            if !cur.contains(&i) {
                cur.push(i);
                rec(n, cur, out);
                cur.pop();
            }
        }
    }
    let mut out = vec![];
    rec(n, &mut vec![], &mut out);
    out
}

fn shuffle_esks(bytes: &[u8], rng: &mut ChaCha8Rng) -> Result<Vec<u8>, String> {
    let mut p = split_packets(bytes)?;
    let last = p.pop().ok_or("empty message")?;
    p.shuffle(rng);
    let mut out = vec![];
    for (_, _, raw) in &p {
        out.extend_from_slice(raw);
    }
    out.extend_from_slice(&last.2);
    Ok(out)
}

fn insert_at_random<T>(v: &mut Vec<T>, x: T, rng: &mut ChaCha8Rng) {
    let pos = rng.gen_range(0..=v.len());
    v.insert(pos, x);
}

fn fam_a(ctx: &mut Ctx, pool: &Pool) {
    let n = ctx.qt(4000u64, 100000u64);
    let mut shapes = vec![];
    for nk in 0..=4usize {
        for np in 0..=3usize {
            if nk + np >= 1 {
                shapes.push((nk, np));
            }
        }
    }
    let chunks = [ChunkSize::C64B, ChunkSize::default(), ChunkSize::C256B];
    for i in 0..n {
        if !ctx.mine() {
            continue;
        }
        let mut rng = ctx.rng("A", i);
        let v2 = i % 2 == 1;
        let j = (i / 2) as usize;
        let sym = if v2 { V2_CIPHERS[j % 3] } else { V1_CIPHERS[j % 11] };
        let mut spec = MsgSpec::new(v2, sym, gen_payload(&mut rng));
        spec.aead = AEADS[(j / 3) % 3];
        spec.chunk = chunks[(j / 9) % 3];
        let (nk, np) = shapes[j % shapes.len()];
        for s in 0..nk {
            let k = if s == 0 {
                j % pool.keys.len()
            } else {
                let have: Vec<usize> = spec.keys.iter().map(|(k, _)| *k).collect();
                pool.pick_other(&mut rng, &have)
            };
            spec.keys.push((k, rng.gen_bool(0.35)));
        }
        for s in 0..np {
            spec.pws.push((format!("pw-{i}-{s}"), j + s));
        }
        let shape = spec.shape(pool);
        crate::core::describe_case(&format!("C18 family A message {i}: {shape}"));
        let built = match build(pool, &spec, &mut rng) {
            Ok(b) => b,
            Err(e) => {
                ctx.inconclusive(format!("builder refused a recipient set: {e}"));
                continue;
            }
        };
        let t = Truth::of(&spec, &built);
        let bytes = if rng.gen_bool(0.5) {
            match shuffle_esks(&built.bytes, &mut rng) {
                Ok(b) => {
                    ctx.tally("A.esk-order-shuffled", 1);
                    b
                }
                Err(e) => {
                    ctx.inconclusive(format!("reference cannot deframe a library message: {e}"));
                    continue;
                }
            }
        } else {
            built.bytes.clone()
        };
        for (k, anon) in &spec.keys {
            ctx.seen(
                "recipient-alg x esk",
                format!("{}|{}|{}", pool.keys[*k].label, if v2 { "pkesk6" } else { "pkesk3" }, if *anon { "anon" } else { "addressed" }),
            );
        }
        for (_, kind) in &spec.pws {
            ctx.seen("s2k x skesk", format!("{}|{}", S2K_KINDS[kind % S2K_KINDS.len()], if v2 { "skesk6" } else { "skesk4" }));
        }
        if v2 {
            ctx.seen("cipher.seipd2", format!("{}-{}", u8::from(spec.sym), u8::from(spec.aead)));
        } else {
            ctx.seen("cipher.seipd1", format!("{}", u8::from(spec.sym)));
        }
        ctx.seen("recipient-set-size", format!("{nk}k+{np}p"));
        ctx.tally("A.messages", 1);

        // ---- (1) recipients only: all ordered subsets (|R| <= 3) or a sample
        let nr = nk + np;
        let arrangements: Vec<Vec<usize>> = if nr <= 3 {
            ordered_subsets(nr)
        } else {
            (0..10)
                .map(|_| {
                    let mut idx: Vec<usize> = (0..nr).collect();
                    idx.shuffle(&mut rng);
                    let take = rng.gen_range(1..=nr);
                    idx.truncate(take);
                    idx
                })
                .collect()
        };
        let mut seen_arr = std::collections::HashSet::new();
        let mut c = i as usize;
        for arr in &arrangements {
            let ks: Vec<usize> = arr.iter().filter(|x| **x < nk).map(|x| spec.keys[*x].0).collect();
            let ps: Vec<String> = arr.iter().filter(|x| **x >= nk).map(|x| spec.pws[*x - nk].0.clone()).collect();
            if !seen_arr.insert((ks.clone(), ps.clone())) {
                continue;
            }
            c += 1;
            let apis: Vec<Api> = if ps.is_empty() && ks.len() == 1 {
                vec![Api::Decrypt, Api::Ring(true), Api::Ring(false)]
            } else if ks.is_empty() && ps.len() == 1 {
                vec![Api::WithPassword, Api::Ring(true), Api::Ring(false)]
            } else if ps.is_empty() {
                vec![Api::WithKeys, Api::Ring(false)]
            } else {
                vec![Api::Ring(true), Api::Ring(false)]
            };
            for (ai, api) in apis.iter().enumerate() {
                let mut p = Pres::new(*api);
                for (pos, k) in ks.iter().enumerate() {
                    p = p.with_key(pool, *k, FORMS[(c + pos + ai) % 6]);
                }
                for w in &ps {
                    p = p.with_pw(w);
                }
                check(ctx, pool, &t, &bytes, &p, "A", &shape, false);
            }
        }

        // ---- (2) recipients with unrelated secrets alongside
        let recips: Vec<usize> = spec.keys.iter().map(|(k, _)| *k).collect();
        for _ in 0..6 {
            let mut idx: Vec<usize> = (0..nr).collect();
            idx.shuffle(&mut rng);
            idx.truncate(rng.gen_range(1..=nr.min(3)));
            let mut p = Pres::new(Api::Ring(rng.gen()));
            for x in &idx {
                if *x < nk {
                    p = p.with_key(pool, spec.keys[*x].0, FORMS[rng.gen_range(0..6)]);
                } else {
                    p = p.with_pw(&spec.pws[*x - nk].0);
                }
            }
            // unrelated keys (same-algorithm twins preferred), any form, at any position
            for _ in 0..rng.gen_range(0..=2) {
                let d = match recips.choose(&mut rng).and_then(|r| pool.twin[*r]) {
                    Some(tw) if rng.gen_bool(0.5) && !recips.contains(&tw) => tw,
                    _ => pool.pick_other(&mut rng, &recips),
                };
                if p.keys.iter().any(|(k, _)| *k == d) {
                    continue;
                }
                let f = FORMS[rng.gen_range(0..6)];
                insert_at_random(&mut p.keys, (d, f), &mut rng);
                if matches!(f, Form::Locked | Form::Split | Form::HalfLocked) && rng.gen_bool(0.5) {
                    let pw = pool.keys[d].kpw.clone();
                    insert_at_random(&mut p.key_pws, pw, &mut rng);
                }
            }
            // wrong key passwords in front of / between the right ones
            for _ in 0..rng.gen_range(0..=2) {
                let w = format!("not-a-key-pw-{}", rng.gen::<u16>());
                insert_at_random(&mut p.key_pws, w, &mut rng);
            }
            // unrelated message passwords
            if rng.gen_bool(0.4) {
                for _ in 0..rng.gen_range(1..=2) {
                    let near = spec.pws.first().map(|(p, _)| p.as_str());
                    let w = wrong_password(&mut rng, near);
                    insert_at_random(&mut p.msg_pws, w, &mut rng);
                }
            }
            if rng.gen_bool(0.2) {
                p = p.with_sk(SkP::Id(0));
            }
            p.streaming = rng.gen_bool(0.15);
            if p.msg_pws.is_empty() && p.sks.is_empty() && !p.keys.is_empty() && !p.streaming && rng.gen_bool(0.4) {
                p.api = Api::WithKeys;
            }
            check(ctx, pool, &t, &bytes, &p, "A", &shape, false);
        }

        // ---- (3) the session key itself
        check(ctx, pool, &t, &bytes, &Pres::new(Api::WithSessionKey).with_sk(SkP::Id(0)), "A", &shape, false);
        check(ctx, pool, &t, &bytes, &Pres::new(Api::Ring(false)).with_sk(SkP::Id(0)).with_sk(SkP::Id(0)), "A", &shape, false);

        // ---- (4) non-recipients only
        // unrelated keys
        {
            let cnt = rng.gen_range(1..=3);
            let mut p = Pres::new(Api::Ring(rng.gen()));
            for _ in 0..cnt {
                let d = match recips.choose(&mut rng).and_then(|r| pool.twin[*r]) {
                    Some(tw) if rng.gen_bool(0.6) && !recips.contains(&tw) => tw,
                    _ => pool.pick_other(&mut rng, &recips),
                };
                if p.keys.iter().any(|(k, _)| *k == d) {
                    continue;
                }
                p = p.with_key(pool, d, FORMS[rng.gen_range(0..6)]);
            }
            if p.keys.len() == 1 && rng.gen() {
                p.api = Api::Decrypt;
            } else if rng.gen_bool(0.3) {
                p.api = Api::WithKeys;
            }
            check_negative(ctx, pool, &t, &bytes, &p, "A", &shape, &mut rng);
        }
        // a recipient key that stays locked (only wrong key passwords)
        if let Some(r) = recips.choose(&mut rng) {
            let f = if rng.gen() { Form::Locked } else { Form::Split };
            let mut p = Pres::new(if rng.gen() { Api::Decrypt } else { Api::Ring(rng.gen()) });
            p.keys.push((*r, f));
            p.key_pws.push(format!("{}x", pool.keys[*r].kpw));
            if p.api != Api::Decrypt {
                p.key_pws.push(String::new());
                p.key_pws.push(format!("other-{}", pool.keys[*r].kpw));
            }
            check_negative(ctx, pool, &t, &bytes, &p, "A", &shape, &mut rng);
        }
        // wrong passwords
        {
            let near = spec.pws.first().map(|(p, _)| p.as_str());
            let p = Pres::new(Api::WithPassword).with_pw(&wrong_password(&mut rng, near));
            check_negative(ctx, pool, &t, &bytes, &p, "A", &shape, &mut rng);
            let p = Pres::new(Api::Ring(rng.gen()))
                .with_pw(&wrong_password(&mut rng, near))
                .with_pw(&wrong_password(&mut rng, None));
            check_negative(ctx, pool, &t, &bytes, &p, "A", &shape, &mut rng);
        }
        // wrong session keys
        {
            let k1 = WRONG_SK_KINDS[(i as usize) % WRONG_SK_KINDS.len()];
            let k2 = WRONG_SK_KINDS[(i as usize / 9 + 1) % WRONG_SK_KINDS.len()];
            let p = Pres::new(Api::WithSessionKey).with_sk(wrong_sk(&t, k1, &mut rng));
            check_negative(ctx, pool, &t, &bytes, &p, "A", &shape, &mut rng);
            let p = Pres::new(Api::Ring(rng.gen())).with_sk(wrong_sk(&t, k2, &mut rng));
            check_negative(ctx, pool, &t, &bytes, &p, "A", &shape, &mut rng);
            // everything wrong at once
            let d = pool.pick_other(&mut rng, &recips);
            let p = Pres::new(Api::Ring(false))
                .with_key(pool, d, FORMS[rng.gen_range(0..6)])
                .with_pw(&wrong_password(&mut rng, None))
                .with_sk(wrong_sk(&t, "random", &mut rng));
            check_negative(ctx, pool, &t, &bytes, &p, "A", &shape, &mut rng);
        }

        // ---- (5) a right secret next to a disagreeing explicit session key
        {
            let mut base = Pres::new(Api::Ring(false));
            if nk > 0 && (np == 0 || rng.gen()) {
                base = base.with_key(pool, spec.keys[0].0, FORMS[rng.gen_range(0..6)]);
            } else {
                base = base.with_pw(&spec.pws[0].0);
            }
            let kind = if rng.gen() { "flip" } else { "random" };
            let p = base.clone().with_sk(wrong_sk(&t, kind, &mut rng));
            check(ctx, pool, &t, &bytes, &p, "A", &shape, false);
            let mut p2 = p.clone();
            p2.api = Api::Ring(true);
            check(ctx, pool, &t, &bytes, &p2, "A", &shape, false);
            let w = wrong_sk(&t, "flip", &mut rng);
            let p = if rng.gen() {
                Pres::new(Api::Ring(false)).with_sk(SkP::Id(0)).with_sk(w)
            } else {
                Pres::new(Api::Ring(false)).with_sk(w).with_sk(SkP::Id(0))
            };
            check(ctx, pool, &t, &bytes, &p, "A", &shape, false);
        }
    }
}

// ------------------------------------------------------------------------------------------
// family B: decoy ESK packets in the message

fn pkesk_rename(body: &[u8], to: Option<&PoolKey>) -> Option<Vec<u8>> {
    match body.first()? {
        3 => {
            let mut out = vec![3u8];
            match to {
                Some(k) => out.extend_from_slice(&k.key_id),
                None => out.extend_from_slice(&[0u8; 8]),
            }
            out.extend_from_slice(body.get(9..)?);
            Some(out)
        }
        6 => {
            let len = *body.get(1)? as usize;
            let rest = body.get(2 + len..)?;
            let mut out = vec![6u8];
            match to {
                Some(k) => {
                    out.push(1 + k.fpr.len() as u8);
                    out.push(if k.v6 { 6 } else { 4 });
                    out.extend_from_slice(&k.fpr);
                }
                None => out.push(0),
            }
            out.extend_from_slice(rest);
            Some(out)
        }
        _ => None,
    }
}

fn corrupt_tail(body: &[u8]) -> Vec<u8> {
    let mut b = body.to_vec();
    let n = b.len();
    b[n - 1] ^= 0x01;
    b[n - 6] ^= 0x80;
    b[n - 11] ^= 0x10;
    b
}

fn frame_esk(tag: u8, body: &[u8]) -> Vec<u8> {
    rfc::frame::frame(tag, body, &LenForm::NewMin).expect("frame")
}

/// a PKESK for an algorithm the library cannot decrypt with
fn foreign_pkesk(v2: bool, alg: u8, id: Option<&PoolKey>, rng: &mut ChaCha8Rng) -> Vec<u8> {
    let mut body = if v2 { vec![6u8, 0] } else { vec![3u8, 0, 0, 0, 0, 0, 0, 0, 0] };
    body.push(alg);
    let mut a = vec![0u8; 256];
    rng.fill_bytes(&mut a);
    a[0] |= 0x80;
    body.extend(rfc::mpi(&a));
    if alg == 16 {
        rng.fill_bytes(&mut a);
        body.extend(rfc::mpi(&a));
    }
    match id {
        Some(k) => pkesk_rename(&body, Some(k)).unwrap(),
        None => {
            if v2 {
                body
            } else {
                // a random, non-wildcard key id
                for b in body[1..9].iter_mut() {
                    *b = rng.gen_range(1..=255);
                }
                body
            }
        }
    }
}

/// PKESK addressed and validly encrypted to `k` whose plaintext is a well-formed session key
/// with a wrong two-octet checksum. None for algorithms without checksum.
fn bad_checksum_pkesk(k: &PoolKey, v2: bool, sym: u8, key_len: usize, rng: &mut ChaCha8Rng) -> Option<Vec<u8>> {
    use pgp::ser::Serialize;
    use pgp::types::{EncryptionKey, EskType};
    if k.label.starts_with("X25519") || k.label.starts_with("X448") {
        return None;
    }
    let mut sk = vec![0u8; key_len];
    rng.fill_bytes(&mut sk);
    let mut blob = if v2 { rfc::sym::session_key_v6(&sk) } else { rfc::sym::session_key_v3(sym, &sk) };
    let n = blob.len();
    blob[n - 1] = blob[n - 1].wrapping_add(1);
    let typ = if v2 { EskType::V6 } else { EskType::V3_4 };
    let public = k.plain.to_public_key();
    let (values, alg) = if k.enc_primary {
        (public.primary_key.encrypt(&mut *rng, &blob, typ).ok()?, u8::from(public.primary_key.algorithm()))
    } else {
        let sub = &public.public_subkeys[0].key;
        (sub.encrypt(&mut *rng, &blob, typ).ok()?, u8::from(sub.algorithm()))
    };
    let mut body = if v2 { vec![6u8, 0, alg] } else { vec![3u8, 0, 0, 0, 0, 0, 0, 0, 0, alg] };
    values.to_writer(&mut body).ok()?;
    pkesk_rename(&body, Some(k))
}

const DECOY_KINDS: [&str; 12] = [
    "bad-checksum-other",
    "renamed-to-other",
    "garbage-other",
    "garbage-self",
    "wildcard-garbage",
    "wildcard-foreign-key",
    "named-foreign-key",
    "foreign-alg-elgamal",
    "foreign-alg-unknown",
    "other-esk-version",
    "unknown-pkesk-version",
    "wildcard-candidates",
];

fn fam_b(ctx: &mut Ctx, pool: &Pool) {
    let reps = ctx.qt(2u64, 40u64);
    let mut idx = 0u64;
    for rep in 0..reps {
        for a in 0..pool.keys.len() {
            for v2 in [false, true] {
                for kind in DECOY_KINDS {
                    idx += 1;
                    if !ctx.mine() {
                        continue;
                    }
                    let mut rng = ctx.rng("B", idx);
                    let b = match pool.twin[a] {
                        Some(tw) if rng.gen_bool(0.6) => tw,
                        _ => pool.pick_other(&mut rng, &[a]),
                    };
                    let c = pool.pick_other(&mut rng, &[a, b]);
                    let sym = if v2 { V2_CIPHERS[rng.gen_range(0..3)] } else { V1_CIPHERS[rng.gen_range(0..11)] };
                    let mut spec = MsgSpec::new(v2, sym, gen_payload(&mut rng));
                    spec.aead = AEADS[rng.gen_range(0..3)];
                    spec.keys = vec![(a, kind == "wildcard-candidates")];
                    let shape = format!("{}|decoy:{kind}", spec.shape(pool));
                    crate::core::describe_case(&format!("C18 family B {shape} rep {rep}"));
                    // second message with another session key (donor of ESK packets)
                    let mut spec2 = spec.clone();
                    spec2.payload = b"the other message".to_vec();
                    spec2.keys = match kind {
                        "garbage-self" => vec![(a, false)],
                        "other-esk-version" => {
                            spec2.v2 = !v2;
                            spec2.sym = SymmetricKeyAlgorithm::AES128;
                            vec![(a, false)]
                        }
                        _ => vec![(b, false)],
                    };
                    let (m1, m2) = match (build(pool, &spec, &mut rng), build(pool, &spec2, &mut rng)) {
                        (Ok(x), Ok(y)) => (x, y),
                        (Err(e), _) | (_, Err(e)) => {
                            ctx.inconclusive(format!("builder refused a recipient set: {e}"));
                            continue;
                        }
                    };
                    let (p1, p2) = match (split_packets(&m1.bytes), split_packets(&m2.bytes)) {
                        (Ok(x), Ok(y)) if x.len() == 2 && y.len() == 2 && x[0].0 == 1 && y[0].0 == 1 => (x, y),
                        _ => {
                            ctx.inconclusive("reference cannot deframe a library message");
                            continue;
                        }
                    };
                    let mut t = Truth::of(&spec, &m1);
                    let donor_body = &p2[0].1;
                    let decoys: Vec<Vec<u8>> = match kind {
                        "renamed-to-other" => vec![frame_esk(1, &pkesk_rename(&p1[0].1, Some(&pool.keys[b])).unwrap())],
                        "garbage-other" | "garbage-self" => vec![frame_esk(1, &corrupt_tail(donor_body))],
                        "bad-checksum-other" => {
                            // validly encrypted to key b, but the session key checksum inside is off by one
                            // (X25519 / X448 carry no checksum: plain garbage there)
                            match bad_checksum_pkesk(&pool.keys[b], v2, u8::from(spec.sym), m1.sk.len(), &mut rng) {
                                Some(body) => vec![frame_esk(1, &body)],
                                None => vec![frame_esk(1, &corrupt_tail(donor_body))],
                            }
                        }
                        "wildcard-garbage" => vec![frame_esk(1, &pkesk_rename(&corrupt_tail(donor_body), None).unwrap())],
                        "wildcard-foreign-key" | "named-foreign-key" => {
                            // a genuine PKESK for key b that carries another session key
                            t.sks.push((u8::from(spec2.sym), m2.sk.clone()));
                            t.key_holders.push((b, 1));
                            if kind == "named-foreign-key" {
                                vec![p2[0].2.clone()]
                            } else {
                                vec![frame_esk(1, &pkesk_rename(donor_body, None).unwrap())]
                            }
                        }
                        "foreign-alg-elgamal" => vec![
                            frame_esk(1, &foreign_pkesk(v2, 16, None, &mut rng)),
                            frame_esk(1, &foreign_pkesk(v2, 16, Some(&pool.keys[b]), &mut rng)),
                        ],
                        "foreign-alg-unknown" => vec![
                            frame_esk(1, &foreign_pkesk(v2, 35, None, &mut rng)),
                            frame_esk(1, &foreign_pkesk(v2, 36, Some(&pool.keys[a]), &mut rng)),
                        ],
                        "other-esk-version" => vec![p2[0].2.clone()],
                        "unknown-pkesk-version" => {
                            let mut body = vec![if rng.gen() { 5u8 } else { 7 }];
                            let mut junk = vec![0u8; rng.gen_range(0..60)];
                            rng.fill_bytes(&mut junk);
                            body.extend(junk);
                            vec![frame_esk(1, &body)]
                        }
                        _ => {
                            // wildcard-candidates: further wildcard PKESKs made for other keys (garbage for everybody presented)
                            vec![frame_esk(1, &pkesk_rename(&corrupt_tail(donor_body), None).unwrap())]
                        }
                    };
                    ctx.seen("decoy.kind", format!("{kind}|{}", if v2 { "pkesk6" } else { "pkesk3" }));
                    for before in [true, false] {
                        let mut bytes = vec![];
                        if before {
                            for d in &decoys {
                                bytes.extend_from_slice(d);
                            }
                        }
                        bytes.extend_from_slice(&p1[0].2);
                        if !before {
                            for d in &decoys {
                                bytes.extend_from_slice(d);
                            }
                        }
                        bytes.extend_from_slice(&p1[1].2);
                        let sh = format!("{shape}|{}", if before { "before" } else { "after" });
                        // the intended recipient alone
                        let f = FORMS[rng.gen_range(0..6)];
                        check(ctx, pool, &t, &bytes, &Pres::new(Api::Decrypt).with_key(pool, a, f), "B", &sh, false);
                        check(ctx, pool, &t, &bytes, &Pres::new(Api::Ring(false)).with_key(pool, a, Form::Plain), "B", &sh, false);
                        // with the decoy's key and another key around it, every position of the recipient
                        for order in [[a, b, c], [b, a, c], [b, c, a]] {
                            let mut p = Pres::new(Api::Ring(rng.gen()));
                            for k in order {
                                p = p.with_key(pool, k, FORMS[rng.gen_range(0..6)]);
                            }
                            if rng.gen_bool(0.3) {
                                p.api = Api::WithKeys;
                            }
                            check(ctx, pool, &t, &bytes, &p, "B", &sh, false);
                        }
                        // decoy-only
                        check_negative(ctx, pool, &t, &bytes, &Pres::new(Api::Decrypt).with_key(pool, b, Form::Plain), "B", &sh, &mut rng);
                        let p = Pres::new(Api::Ring(rng.gen())).with_key(pool, c, FORMS[rng.gen_range(0..6)]).with_key(pool, b, FORMS[rng.gen_range(0..6)]);
                        check_negative(ctx, pool, &t, &bytes, &p, "B", &sh, &mut rng);
                    }
                }
            }
        }
    }
    // informational: a PKESK for a private/experimental or signing-only algorithm makes the whole
    // message unparsable (not part of the property: the library cannot encrypt to such keys)
    if ctx.mine() {
        let mut rng = ctx.rng("B.info", 0);
        let mut spec = MsgSpec::new(false, SymmetricKeyAlgorithm::AES128, b"x".to_vec());
        spec.keys = vec![(0, false)];
        if let Ok(m) = build(pool, &spec, &mut rng) {
            for alg in [100u8, 22] {
                let mut bytes = frame_esk(1, &foreign_pkesk(false, alg, None, &mut rng));
                bytes.extend_from_slice(&m.bytes);
                let ok = crate::core::guard(|| Message::from_bytes(&bytes[..]).is_ok()).unwrap_or(false);
                ctx.seen("info.foreign-pkesk-alg-parse", format!("alg{alg}:{}", if ok { "parsed" } else { "message rejected" }));
            }
        }
    }
}

// ------------------------------------------------------------------------------------------
// family C: spliced messages whose ESK packets / explicit session keys disagree

const CONFLICT_SHAPES: [&str; 11] = [
    "pk-sk",
    "sk-pk",
    "pk-pk",
    "pk-pk-same-key",
    "sk-sk",
    "sk-sk-same-password",
    "pk-x",
    "sk-x",
    "x-x",
    "pk-sk-x",
    "control-consistent",
];

fn fam_c(ctx: &mut Ctx, pool: &Pool) {
    let reps = ctx.qt(8u64, 400u64);
    let mut idx = 0u64;
    for rep in 0..reps {
        for v2 in [false, true] {
            for shape_name in CONFLICT_SHAPES {
                for alg_only in [false, true] {
                    idx += 1;
                    if alg_only && (v2 || shape_name == "control-consistent") {
                        continue;
                    }
                    if !ctx.mine() {
                        continue;
                    }
                    let mut rng = ctx.rng("C", idx);
                    let a = (idx as usize * 7 + rep as usize) % pool.keys.len();
                    let b = pool.pick_other(&mut rng, &[a]);
                    let (pw_p, pw_q) = (format!("conflict-p-{idx}"), format!("conflict-q-{idx}"));
                    let sym1 = if v2 { V2_CIPHERS[rng.gen_range(0..3)] } else { V1_CIPHERS[rng.gen_range(0..11)] };
                    // message 1: to key a and password p; message 2: to keys a, b and passwords p, q — other session key
                    let mut s1 = MsgSpec::new(v2, sym1, gen_payload(&mut rng));
                    s1.aead = AEADS[rng.gen_range(0..3)];
                    s1.keys = vec![(a, rng.gen_bool(0.3))];
                    s1.pws = vec![(pw_p.clone(), rng.gen_range(0..5))];
                    let m1 = match build(pool, &s1, &mut rng) {
                        Ok(m) => m,
                        Err(e) => {
                            ctx.inconclusive(format!("builder refused a recipient set: {e}"));
                            continue;
                        }
                    };
                    let mut s2 = s1.clone();
                    s2.payload = b"payload of the OTHER message".to_vec();
                    s2.keys = vec![(a, rng.gen_bool(0.3)), (b, rng.gen_bool(0.3))];
                    s2.pws = vec![(pw_p.clone(), rng.gen_range(0..5)), (pw_q.clone(), rng.gen_range(0..5))];
                    if alg_only {
                        // same key octets, different cipher of the same key size
                        let a1 = u8::from(sym1);
                        let other = rfc::sym::ALL_CIPHERS
                            .iter()
                            .copied()
                            .find(|x| *x != a1 && rfc::sym::key_size(*x) == rfc::sym::key_size(a1));
                        let Some(other) = other else { continue };
                        s2.sym = SymmetricKeyAlgorithm::from(other);
                        s2.forced_sk = Some(m1.sk.clone());
                    } else if !v2 && rng.gen() {
                        s2.sym = V1_CIPHERS[rng.gen_range(0..11)];
                    } else if v2 && rng.gen() {
                        s2.sym = V2_CIPHERS[rng.gen_range(0..3)];
                    }
                    let m2 = match build(pool, &s2, &mut rng) {
                        Ok(m) => m,
                        Err(e) => {
                            ctx.inconclusive(format!("builder refused a recipient set: {e}"));
                            continue;
                        }
                    };
                    if m1.sk == m2.sk && s1.sym == s2.sym {
                        ctx.inconclusive("two builds produced the same session key");
                        continue;
                    }
                    let (p1, p2) = match (split_packets(&m1.bytes), split_packets(&m2.bytes)) {
                        (Ok(x), Ok(y)) if x.len() == 3 && y.len() == 5 => (x, y),
                        _ => {
                            ctx.inconclusive("reference cannot deframe a library message");
                            continue;
                        }
                    };
                    // library order: SKESKs then PKESKs
                    let (sk_p1, pk_a1, data1) = (&p1[0].2, &p1[1].2, &p1[2].2);
                    let (sk_p2, sk_q2, pk_a2, pk_b2) = (&p2[0].2, &p2[1].2, &p2[2].2, &p2[3].2);
                    let mut t = Truth {
                        v2,
                        payload: s1.payload.clone(),
                        sks: vec![(u8::from(s1.sym), m1.sk.clone()), (u8::from(s2.sym), m2.sk.clone())],
                        key_holders: vec![],
                        pw_holders: vec![],
                        skesk4: vec![],
                    };
                    let mut esks: Vec<&Vec<u8>> = vec![];
                    // presentations: (keys, passwords, explicit session keys)
                    let mut sets: Vec<(Vec<usize>, Vec<&str>, Vec<usize>)> = vec![];
                    match shape_name {
                        "pk-sk" => {
                            esks = vec![pk_a1, sk_q2];
                            t.key_holders = vec![(a, 0)];
                            t.pw_holders = vec![(pw_q.clone(), 1)];
                            sets = vec![(vec![a], vec![&pw_q], vec![]), (vec![a], vec![], vec![]), (vec![], vec![&pw_q], vec![])];
                        }
                        "sk-pk" => {
                            esks = vec![sk_p1, pk_b2];
                            t.pw_holders = vec![(pw_p.clone(), 0)];
                            t.key_holders = vec![(b, 1)];
                            sets = vec![(vec![b], vec![&pw_p], vec![]), (vec![], vec![&pw_p], vec![]), (vec![b], vec![], vec![])];
                        }
                        "pk-pk" => {
                            esks = vec![pk_a1, pk_b2];
                            t.key_holders = vec![(a, 0), (b, 1)];
                            sets = vec![(vec![a, b], vec![], vec![]), (vec![b, a], vec![], vec![]), (vec![a], vec![], vec![]), (vec![b], vec![], vec![])];
                        }
                        "pk-pk-same-key" => {
                            esks = vec![pk_a1, pk_a2];
                            t.key_holders = vec![(a, 0), (a, 1)];
                            sets = vec![(vec![a], vec![], vec![]), (vec![b, a], vec![], vec![])];
                        }
                        "sk-sk" => {
                            esks = vec![sk_p1, sk_q2];
                            t.pw_holders = vec![(pw_p.clone(), 0), (pw_q.clone(), 1)];
                            sets = vec![(vec![], vec![&pw_p, &pw_q], vec![]), (vec![], vec![&pw_q, &pw_p], vec![]), (vec![], vec![&pw_q], vec![])];
                        }
                        "sk-sk-same-password" => {
                            esks = vec![sk_p1, sk_p2];
                            t.pw_holders = vec![(pw_p.clone(), 0), (pw_p.clone(), 1)];
                            sets = vec![(vec![], vec![&pw_p], vec![]), (vec![a], vec![&pw_p], vec![])];
                        }
                        "pk-x" => {
                            esks = vec![pk_a1];
                            t.key_holders = vec![(a, 0)];
                            sets = vec![(vec![a], vec![], vec![1]), (vec![b, a], vec![], vec![1]), (vec![], vec![], vec![1])];
                        }
                        "sk-x" => {
                            esks = vec![sk_p1];
                            t.pw_holders = vec![(pw_p.clone(), 0)];
                            sets = vec![(vec![], vec![&pw_p], vec![1]), (vec![], vec![&pw_p], vec![0, 1])];
                        }
                        "x-x" => {
                            esks = vec![pk_a1];
                            t.key_holders = vec![(a, 0)];
                            sets = vec![(vec![], vec![], vec![0, 1]), (vec![], vec![], vec![1, 0]), (vec![], vec![], vec![0, 0, 1])];
                        }
                        "pk-sk-x" => {
                            esks = vec![pk_a1, sk_p1];
                            t.key_holders = vec![(a, 0)];
                            t.pw_holders = vec![(pw_p.clone(), 0)];
                            sets = vec![(vec![a], vec![&pw_p], vec![1]), (vec![a], vec![&pw_p], vec![0, 1])];
                        }
                        _ => {
                            // control: everything agrees
                            esks = vec![sk_p1, pk_a1];
                            t.key_holders = vec![(a, 0)];
                            t.pw_holders = vec![(pw_p.clone(), 0)];
                            sets = vec![(vec![a], vec![&pw_p], vec![0]), (vec![a], vec![&pw_p], vec![]), (vec![b, a], vec![&pw_p], vec![0, 0])];
                        }
                    }
                    if rng.gen() {
                        esks.reverse();
                    }
                    let mut bytes = vec![];
                    for e in &esks {
                        bytes.extend_from_slice(e);
                    }
                    bytes.extend_from_slice(data1);
                    t.skesk4 = skesk4_bodies(&bytes);
                    let shape = format!(
                        "{}|conflict:{shape_name}{}|{}",
                        if v2 { "v2" } else { "v1" },
                        if alg_only { "(alg-only)" } else { "" },
                        pool.keys[a].label
                    );
                    crate::core::describe_case(&format!("C18 family C {shape}"));
                    ctx.seen("conflict.shape", format!("{shape_name}|{}", if v2 { "v2" } else { "v1" }));
                    if alg_only {
                        ctx.seen("conflict.shape", "alg-only|v1");
                    }
                    for (ks, ps, xs) in &sets {
                        for ae in [false, true] {
                            let mut p = Pres::new(Api::Ring(ae));
                            for k in ks {
                                p = p.with_key(pool, *k, FORMS[rng.gen_range(0..6)]);
                            }
                            for w in ps {
                                p = p.with_pw(w);
                            }
                            for x in xs {
                                p = p.with_sk(SkP::Id(*x));
                            }
                            check_negative(ctx, pool, &t, &bytes, &p, "C", &shape, &mut rng);
                        }
                        // convenience entry points where they apply
                        if ps.is_empty() && xs.is_empty() && ks.len() == 1 {
                            let p = Pres::new(Api::Decrypt).with_key(pool, ks[0], FORMS[rng.gen_range(0..6)]);
                            check_negative(ctx, pool, &t, &bytes, &p, "C", &shape, &mut rng);
                        } else if ps.is_empty() && xs.is_empty() {
                            let mut p = Pres::new(Api::WithKeys);
                            for k in ks {
                                p = p.with_key(pool, *k, Form::Plain);
                            }
                            check_negative(ctx, pool, &t, &bytes, &p, "C", &shape, &mut rng);
                        } else if ks.is_empty() && xs.is_empty() && ps.len() == 1 {
                            check_negative(ctx, pool, &t, &bytes, &Pres::new(Api::WithPassword).with_pw(ps[0]), "C", &shape, &mut rng);
                        } else if ks.is_empty() && ps.is_empty() && xs.len() == 1 {
                            check_negative(ctx, pool, &t, &bytes, &Pres::new(Api::WithSessionKey).with_sk(SkP::Id(xs[0])), "C", &shape, &mut rng);
                        }
                    }
                }
            }
        }
    }
}

// ------------------------------------------------------------------------------------------
// family D: two SKESK v4 where the second password passes the plausibility check of the first
// packet (directed witness search with the reference S2K + CFB)

fn fam_d(ctx: &mut Ctx, pool: &Pool) {
    let reps = ctx.qt(1u64, 8u64);
    for rep in 0..reps {
        for (ci, sym) in V1_CIPHERS.iter().enumerate() {
            for s2k in 0..S2K_KINDS.len() {
                if !ctx.mine() {
                    continue;
                }
                let tag = (rep * 1000 + ci as u64 * 10 + s2k as u64) as u64;
                let pw_a = format!("first-password-{tag}");
                let mut spec = MsgSpec::new(false, *sym, b"two passwords".to_vec());
                spec.pws = vec![(pw_a.clone(), s2k), ("placeholder".to_string(), s2k + 1)];
                crate::core::describe_case(&format!("C18 family D cipher {} s2k {}", u8::from(*sym), S2K_KINDS[s2k]));
                let mut rng = ctx.rng("D", tag);
                let Ok(m0) = build(pool, &spec, &mut rng) else {
                    ctx.inconclusive("builder refused two passwords");
                    continue;
                };
                let bodies = skesk4_bodies(&m0.bytes);
                if bodies.len() != 2 {
                    ctx.inconclusive("reference cannot deframe a library message");
                    continue;
                }
                // search a second password that the first SKESK v4 "accepts"
                let mut found = None;
                for c in 0..6000u32 {
                    let cand = format!("second-password-{tag}-{c}");
                    if let Some((alg, key)) = rfc::sym::skesk_v4_decrypt(&bodies[0], cand.as_bytes()) {
                        if alg != 0 && rfc::sym::key_size(alg) == Some(key.len()) {
                            found = Some(cand);
                            break;
                        }
                    }
                }
                let Some(pw_b) = found else {
                    ctx.inconclusive("no colliding password found in 6000 candidates");
                    continue;
                };
                // rebuild with the same randomness: only the second password changes
                spec.pws[1].0 = pw_b.clone();
                let mut rng = ctx.rng("D", tag);
                let Ok(m) = build(pool, &spec, &mut rng) else {
                    ctx.inconclusive("builder refused two passwords");
                    continue;
                };
                let t = Truth::of(&spec, &m);
                let probe = Pres::new(Api::WithPassword).with_pw(&pw_b);
                if !skesk4_cross_accept(&t, &probe) {
                    ctx.inconclusive("rebuilt message lost the collision");
                    continue;
                }
                ctx.tally("D.collision-messages", 1);
                ctx.seen("D.cipher", format!("{}", u8::from(*sym)));
                let shape = format!("v1||{},{}|collision", S2K_KINDS[s2k], S2K_KINDS[(s2k + 1) % S2K_KINDS.len()]);
                for api in [Api::WithPassword, Api::Ring(true), Api::Ring(false)] {
                    let mut p = probe.clone();
                    p.api = api;
                    check(ctx, pool, &t, &m.bytes, &p, "D", &shape, false);
                }
                check(ctx, pool, &t, &m.bytes, &Pres::new(Api::WithPassword).with_pw(&pw_a), "D", &shape, false);
            }
        }
    }
}

// ------------------------------------------------------------------------------------------
// family E: explicit session keys of every cipher, every kind of wrong session key

/// Family O: the order of builder operations. Recipients (key `K`, password `P`) and a caller-chosen session
/// key (`S`) are added in every order; a sequence the builder accepts must give a message that every recipient
/// opens alone (a sequence the builder refuses is fine).
fn fam_o(ctx: &mut Ctx, pool: &Pool) {
    let orders = ["SK", "KS", "SP", "PS", "SKP", "KSP", "KPS", "SPK", "PSK", "PKS", "KKS", "KSK"];
    let fast: Vec<usize> = (0..pool.keys.len()).filter(|k| !pool.keys[*k].is_rsa).collect();
    let reps = ctx.qt(2u64, 12u64);
    for rep in 0..reps {
        for v2 in [false, true] {
            for (oi, order) in orders.iter().enumerate() {
                if !ctx.mine() {
                    continue;
                }
                let mut rng = ctx.rng("O", rep * 1000 + oi as u64 * 2 + v2 as u64);
                let sym = if v2 { V2_CIPHERS[(oi + rep as usize) % 3] } else { V1_CIPHERS[(oi + rep as usize * 5) % 11] };
                let payload = gen_payload(&mut rng);
                let mut sk = vec![0u8; sym.key_size()];
                rng.fill_bytes(&mut sk);
                crate::core::describe_case(&format!("C18 family O order {order} v2={v2}"));
                let replay = json!({"family": "O", "order": order, "v2": v2, "sym": u8::from(sym), "session_key": hexs(&sk), "payload": hexs(&payload)});
                let mut used_keys: Vec<usize> = vec![];
                let mut used_pws: Vec<String> = vec![];
                let pw_text = format!("o-pw-{rep}-{oi}");
                // the candidate keys of this case (distinct)
                let cand: Vec<usize> = {
                    let mut c = fast.clone();
                    c.retain(|k| !v2 || pool.keys[*k].v6 || true);
                    c.shuffle(&mut rng);
                    c.truncate(2);
                    c
                };
                let built: Option<Result<Vec<u8>, String>> = ctx.guarded("C18/O/build", || replay.clone(), || {
                    if v2 {
                        let mut b = MessageBuilder::from_bytes("", payload.clone()).seipd_v2(&mut rng, sym, AeadAlgorithm::Ocb, ChunkSize::C64B);
                        let mut ki = 0usize;
                        for op in order.chars() {
                            match op {
                                'S' => b.set_session_key(sk.clone().into()).map(|_| ()).map_err(|e| format!("set_session_key: {e}"))?,
                                'K' => {
                                    let k = cand[ki % cand.len()];
                                    ki += 1;
                                    let pk = &pool.keys[k];
                                    let public = pk.plain.to_public_key();
                                    if pk.enc_primary {
                                        b.encrypt_to_key(&mut rng, &public.primary_key).map(|_| ()).map_err(|e| format!("encrypt_to_key: {e}"))?;
                                    } else {
                                        b.encrypt_to_key(&mut rng, &public.public_subkeys[0].key).map(|_| ()).map_err(|e| format!("encrypt_to_key: {e}"))?;
                                    }
                                    used_keys.push(k);
                                }
                                _ => {
                                    let s2k = mk_s2k(oi, &mut rng);
                                    b.encrypt_with_password(&mut rng, s2k, &pw_text.as_str().into()).map(|_| ()).map_err(|e| format!("encrypt_with_password: {e}"))?;
                                    used_pws.push(pw_text.clone());
                                }
                            }
                        }
                        b.to_vec(&mut rng).map_err(|e| format!("to_vec: {e}"))
                    } else {
                        let mut b = MessageBuilder::from_bytes("", payload.clone()).seipd_v1(&mut rng, sym);
                        let mut ki = 0usize;
                        for op in order.chars() {
                            match op {
                                'S' => b.set_session_key(sk.clone().into()).map(|_| ()).map_err(|e| format!("set_session_key: {e}"))?,
                                'K' => {
                                    let k = cand[ki % cand.len()];
                                    ki += 1;
                                    let pk = &pool.keys[k];
                                    let public = pk.plain.to_public_key();
                                    if pk.enc_primary {
                                        b.encrypt_to_key(&mut rng, &public.primary_key).map(|_| ()).map_err(|e| format!("encrypt_to_key: {e}"))?;
                                    } else {
                                        b.encrypt_to_key(&mut rng, &public.public_subkeys[0].key).map(|_| ()).map_err(|e| format!("encrypt_to_key: {e}"))?;
                                    }
                                    used_keys.push(k);
                                }
                                _ => {
                                    let s2k = mk_s2k(oi, &mut rng);
                                    b.encrypt_with_password(s2k, &pw_text.as_str().into()).map(|_| ()).map_err(|e| format!("encrypt_with_password: {e}"))?;
                                    used_pws.push(pw_text.clone());
                                }
                            }
                        }
                        b.to_vec(&mut rng).map_err(|e| format!("to_vec: {e}"))
                    }
                });
                ctx.eval();
                ctx.cover(&("O", *order, v2, rep));
                let bytes = match built {
                    None => continue,
                    Some(Err(e)) => {
                        ctx.tally("O.sequence-refused-by-builder", 1);
                        ctx.seen("O.refused", format!("{order}/v{}: {}", if v2 { 2 } else { 1 }, e.split(':').next().unwrap_or("")));
                        continue;
                    }
                    Some(Ok(b)) => b,
                };
                ctx.seen("O.accepted", format!("{order}/v{}", if v2 { 2 } else { 1 }));
                // every recipient alone
                for k in &used_keys {
                    let pk = &pool.keys[*k];
                    let r = ctx.guarded("C18/O/decrypt", || replay.clone(), || -> Result<Vec<u8>, String> {
                        let m = Message::from_bytes(&bytes[..]).map_err(|e| format!("parse: {e}"))?;
                        let mut d = m.decrypt(&Password::empty(), &pk.plain).map_err(|e| format!("decrypt: {e}"))?;
                        let mut out = vec![];
                        std::io::Read::read_to_end(&mut d, &mut out).map_err(|e| format!("read: {e}"))?;
                        Ok(out)
                    });
                    ctx.eval();
                    match r {
                        Some(Ok(out)) if out == payload => {}
                        Some(Ok(_)) => ctx.violation(format!("C18/O/key-recipient/wrong-plaintext/{order}"), format!("builder sequence {order} (SEIPDv{}): key recipient {} reads other data", if v2 { 2 } else { 1 }, pk.label), replay.clone()),
                        Some(Err(e)) => ctx.violation(
                            format!("C18/O/key-recipient/cannot-decrypt/{order}"),
                            format!("builder sequence {order} (SEIPDv{}) was accepted, but key recipient {} cannot open the message: {e}", if v2 { 2 } else { 1 }, pk.label),
                            replay.clone(),
                        ),
                        None => {}
                    }
                }
                for pw in &used_pws {
                    let r = ctx.guarded("C18/O/decrypt", || replay.clone(), || -> Result<Vec<u8>, String> {
                        let m = Message::from_bytes(&bytes[..]).map_err(|e| format!("parse: {e}"))?;
                        let mut d = m.decrypt_with_password(&pw.as_str().into()).map_err(|e| format!("decrypt: {e}"))?;
                        let mut out = vec![];
                        std::io::Read::read_to_end(&mut d, &mut out).map_err(|e| format!("read: {e}"))?;
                        Ok(out)
                    });
                    ctx.eval();
                    match r {
                        Some(Ok(out)) if out == payload => {}
                        Some(Ok(_)) => ctx.violation(format!("C18/O/password-recipient/wrong-plaintext/{order}"), format!("builder sequence {order}: password recipient reads other data"), replay.clone()),
                        Some(Err(e)) => ctx.violation(
                            format!("C18/O/password-recipient/cannot-decrypt/{order}"),
                            format!("builder sequence {order} (SEIPDv{}) was accepted, but the password recipient cannot open the message: {e}", if v2 { 2 } else { 1 }),
                            replay.clone(),
                        ),
                        None => {}
                    }
                }
            }
        }
    }
}

fn fam_e(ctx: &mut Ctx, pool: &Pool) {
    let reps = ctx.qt(1u64, 20u64);
    let mut combos: Vec<(bool, SymmetricKeyAlgorithm, AeadAlgorithm)> = vec![];
    for s in V1_CIPHERS {
        combos.push((false, s, AeadAlgorithm::Ocb));
    }
    for s in V2_CIPHERS {
        for a in AEADS {
            combos.push((true, s, a));
        }
    }
    // directed: CAST5 session key ending in a zero octet, presented without that octet
    for rep in 0..reps {
        if !ctx.mine() {
            continue;
        }
        let mut rng = ctx.rng("E.cast5", rep);
        let mut spec = MsgSpec::new(false, SymmetricKeyAlgorithm::CAST5, gen_payload(&mut rng));
        spec.pws = vec![(format!("e-cast5-{rep}"), rep as usize)];
        let mut sk = vec![0u8; 16];
        rng.fill_bytes(&mut sk[..15]);
        spec.forced_sk = Some(sk);
        let Ok(m) = build(pool, &spec, &mut rng) else {
            ctx.inconclusive("builder refused a forced session key");
            continue;
        };
        let t = Truth::of(&spec, &m);
        let shape = format!("{}|sk-cast5-zero-tail", spec.shape(pool));
        crate::core::describe_case("C18 family E CAST5 truncated session key");
        for api in [Api::WithSessionKey, Api::Ring(true), Api::Ring(false)] {
            let p = Pres::new(api).with_sk(wrong_sk(&t, "short", &mut rng));
            check(ctx, pool, &t, &m.bytes, &p, "E", &shape, false);
            check(ctx, pool, &t, &m.bytes, &Pres::new(api).with_sk(SkP::Id(0)), "E", &shape, false);
        }
    }
    for rep in 0..reps {
        for (ci, (v2, sym, aead)) in combos.iter().enumerate() {
            if !ctx.mine() {
                continue;
            }
            let mut rng = ctx.rng("E", rep * 100 + ci as u64);
            let mut spec = MsgSpec::new(*v2, *sym, gen_payload(&mut rng));
            spec.aead = *aead;
            spec.pws = vec![(format!("e-{rep}-{ci}"), ci)];
            let Ok(m) = build(pool, &spec, &mut rng) else {
                ctx.inconclusive("builder refused a password recipient");
                continue;
            };
            let t = Truth::of(&spec, &m);
            let shape = format!("{}|sk-matrix", spec.shape(pool));
            crate::core::describe_case(&format!("C18 family E {shape} cipher {}", u8::from(*sym)));
            ctx.seen(if *v2 { "session-key.cipher.v6" } else { "session-key.cipher.v3_4" }, format!("{}", u8::from(*sym)));
            for api in [Api::WithSessionKey, Api::Ring(true), Api::Ring(false)] {
                let mut p = Pres::new(api).with_sk(SkP::Id(0));
                check(ctx, pool, &t, &m.bytes, &p, "E", &shape, false);
                p.streaming = true;
                if api != Api::WithSessionKey {
                    check(ctx, pool, &t, &m.bytes, &p, "E", &shape, false);
                }
                for kind in WRONG_SK_KINDS {
                    ctx.seen("wrong-session-key.kind", kind);
                    let p = Pres::new(api).with_sk(wrong_sk(&t, kind, &mut rng));
                    check_negative(ctx, pool, &t, &m.bytes, &p, "E", &shape, &mut rng);
                }
            }
        }
    }
}

pub fn run(ctx: &mut Ctx) {
    let pool = Pool::new();
    ctx.extra.insert("key_pool".into(), json!(pool.keys.iter().map(|k| k.label.clone()).collect::<Vec<_>>()));
    fam_a(ctx, &pool);
    fam_b(ctx, &pool);
    fam_c(ctx, &pool);
    fam_d(ctx, &pool);
    fam_e(ctx, &pool);
    fam_o(ctx, &pool);
}
