//! C14 — one text canonicalisation, however the text is delivered.

use std::io::Write;

use pgp::composed::MessageBuilder;
use pgp::crypto::hash::HashAlgorithm;
use pgp::line_writer::LineBreak;
use pgp::normalize_lines::NormalizedReader;
use pgp::packet::{
    DataMode, LiteralData, SignatureConfig, SignatureType, Subpacket, SubpacketData,
};
use pgp::ser::Serialize;
use pgp::types::{KeyDetails, Password, Timestamp};
use rand::Rng;
use serde_json::json;

use crate::core::{hexs, Ctx};
use crate::hooks;
use crate::rec::{RecSigner, RecVerifier};
use crate::rfc;
use crate::shim::{chunks_by_splits, composition_splits, drain_read, Consume, Sched, SchedReader};
use crate::zoo;

const ALPHA: [u8; 3] = [b'\r', b'\n', b'a'];

fn nth_string(mut idx: u64, len: usize, alpha: &[u8]) -> Vec<u8> {
    let mut s = vec![0u8; len];
    for c in s.iter_mut() {
        *c = alpha[(idx % alpha.len() as u64) as usize];
        idx /= alpha.len() as u64;
    }
    s
}

fn class(s: &[u8]) -> &'static str {
    if s.last() == Some(&b'\r') {
        "trailing-lone-CR"
    } else {
        "other"
    }
}

/// `Send` source that hands out its data in the pieces of a schedule (`Message::from_bytes` needs `Send`)
impl std::fmt::Debug for SendSrc {
    fn fmt(&self, f: &mut std::fmt::Formatter<'_>) -> std::fmt::Result {
        write!(f, "SendSrc")
    }
}

struct SendSrc {
    data: Vec<u8>,
    pos: usize,
    sizes: Vec<usize>,
    k: usize,
    cur: usize,
}

impl SendSrc {
    fn new(data: Vec<u8>, sched: &Sched) -> Self {
        use rand::SeedableRng;
        let sizes: Vec<usize> = match sched {
            Sched::All => vec![usize::MAX],
            Sched::Fixed(n) => vec![(*n).max(1)],
            Sched::Cycle(v) => v.iter().map(|x| (*x).max(1)).collect(),
            Sched::SplitAt(v) => {
                let mut out = vec![];
                let mut last = 0;
                for o in v {
                    if *o > last {
                        out.push(*o - last);
                        last = *o;
                    }
                }
                out.push(usize::MAX);
                out
            }
            Sched::Random(seed, max) => {
                let mut r = rand_chacha::ChaCha8Rng::seed_from_u64(*seed);
                (0..4096).map(|_| r.gen_range(1..=(*max).max(1))).collect()
            }
        };
        SendSrc { data, pos: 0, sizes, k: 0, cur: 0 }
    }
    fn window(&mut self) -> usize {
        if self.cur == 0 {
            self.cur = self.sizes[self.k.min(self.sizes.len() - 1) % self.sizes.len()];
            self.k = (self.k + 1) % self.sizes.len().max(1);
        }
        self.cur.min(self.data.len() - self.pos)
    }
}

impl std::io::Read for SendSrc {
    fn read(&mut self, buf: &mut [u8]) -> std::io::Result<usize> {
        let n = self.window().min(buf.len());
        buf[..n].copy_from_slice(&self.data[self.pos..self.pos + n]);
        std::io::BufRead::consume(self, n);
        Ok(n)
    }
}

impl std::io::BufRead for SendSrc {
    fn fill_buf(&mut self) -> std::io::Result<&[u8]> {
        let n = self.window();
        Ok(&self.data[self.pos..self.pos + n])
    }
    fn consume(&mut self, amt: usize) {
        self.pos += amt;
        self.cur = if self.cur == usize::MAX { usize::MAX } else { self.cur.saturating_sub(amt) };
        if self.cur == usize::MAX && self.sizes.len() > 1 {
            // a "rest" piece stays open
        }
    }
}

/// Inline verification of a text-mode signature: the document travels in a binary literal packet behind a
/// one-pass header (`[OPS][literal][signature]`) or behind the signature itself (`[signature][literal]`),
/// is read to the end through `Message` and verified. Returns the digests the primitive saw.
fn inline_verify<K: pgp::types::VerifyingKey>(
    rs: &rfc::sig::RefSig,
    sig_body: &[u8],
    key_id: &[u8],
    doc: &[u8],
    one_pass: bool,
    lit_form: &rfc::frame::LenForm,
    sched: Sched,
    ver: &RecVerifier<'_, K>,
) -> Result<(), String> {
    use rfc::frame::{frame, LenForm};
    let mut lit = vec![b'b', 0, 0, 0, 0, 0];
    lit.extend_from_slice(doc);
    let sigp = frame(2, sig_body, &LenForm::NewMin).ok_or("frame sig")?;
    let litp = frame(11, &lit, lit_form).ok_or("frame literal")?;
    let mut msg = vec![];
    if one_pass {
        let ops = rfc::sig::RefOps { version: 3, typ: rs.typ, hash_alg: rs.hash_alg, pub_alg: rs.pub_alg, salt: vec![], issuer: key_id.to_vec(), last: 1 };
        msg.extend(frame(4, &ops.encode(), &LenForm::NewMin).ok_or("frame ops")?);
        msg.extend(litp);
        msg.extend(sigp);
    } else {
        msg.extend(sigp);
        msg.extend(litp);
    }
    let mut m = pgp::composed::Message::from_bytes(SendSrc::new(msg, &sched)).map_err(|e| format!("parse: {e}"))?;
    let mut out = vec![];
    std::io::Read::read_to_end(&mut m, &mut out).map_err(|e| format!("read: {e}"))?;
    if out != doc {
        return Err("released data differs from the document".into());
    }
    m.verify(ver).map(|_| ()).map_err(|e| format!("verify: {e}"))
}

pub fn run(ctx: &mut Ctx) {
    ctx.exhaustive = true;
    let maxlen = ctx.qt(7usize, 10usize);
    let key = zoo::key(&zoo::Spec::simple(false, zoo::Alg::Ed25519Legacy, None), 0);
    let pubkey = key.to_public_key();
    let signer = RecSigner::dry(&key.primary_key);
    let ts = Timestamp::from_secs(1_700_000_000);
    let key6 = zoo::key(&zoo::Spec::simple(true, zoo::Alg::Ed25519, None), 0);
    let signer6 = RecSigner::dry(&key6.primary_key);
    let key_id: Vec<u8> = key.primary_key.legacy_key_id().as_ref().to_vec();

    let mk_config = || {
        let mut c = SignatureConfig::v4(
            SignatureType::Text,
            key.primary_key.algorithm(),
            HashAlgorithm::Sha256,
        );
        c.hashed_subpackets = vec![
            Subpacket::regular(SubpacketData::SignatureCreationTime(ts)).unwrap(),
            Subpacket::regular(SubpacketData::IssuerFingerprint(key.primary_key.fingerprint()))
                .unwrap(),
        ];
        c
    };

    // ----------------------------------------------------------------------------------
    // Family A: exhaustive strings x exhaustive chunkings through the streaming hasher
    // (SignatureHasher as io::Write), SignatureConfig::sign(reader) and Signature::verify
    // (NormalizedReader inside), digests compared with the reference digest.
    for len in 0..=maxlen {
        let nstr = 3u64.pow(len as u32);
        for si in 0..nstr {
            if !ctx.mine() {
                continue;
            }
            let s = nth_string(si, len, &ALPHA);
            let ncomp = 1u64 << len.saturating_sub(1);
            let canon = rfc::canon_text(&s);
            ctx.cover(&("A", &s));
            let mut ref_digest: Option<Vec<u8>> = None;
            let mut inline_ref: Option<(rfc::sig::RefSig, Vec<u8>, Vec<u8>)> = None;
            for mask in 0..ncomp {
                let splits = composition_splits(len, mask);
                // (a) hasher as io::Write
                let r = ctx.guarded("C14/hasher", || json!({"s": hexs(&s), "mask": mask}), || {
                    let (res, ev) = hooks::record(|| {
                        let mut h = mk_config().into_hasher().expect("hasher");
                        for c in chunks_by_splits(&s, &splits) {
                            h.write_all(c).unwrap();
                        }
                        h.sign(&signer, &Password::empty())
                    });
                    (res, ev)
                });
                let Some((res, ev)) = r else { continue };
                for e in &ev {
                    if e.site == "norm.hash_buf" {
                        let cls = match e.b as u8 {
                            b'\r' => "CR",
                            b'\n' => "LF",
                            _ => "x",
                        };
                        ctx.seen("hook.norm.hash_buf(last_was_cr,first)", format!("{}-{}", e.a, cls));
                    }
                }
                ctx.eval();
                let sig = match res {
                    Ok(s) => s,
                    Err(e) => {
                        ctx.violation(
                            "C14/hasher/sign-error",
                            format!("sign failed: {e}"),
                            json!({"s": hexs(&s), "mask": mask}),
                        );
                        continue;
                    }
                };
                let seen = signer.take();
                let body = sig.to_bytes().expect("sig bytes");
                let rs = match rfc::sig::parse_sig(&body) {
                    Ok(r) => r,
                    Err(e) => {
                        ctx.inconclusive(format!("reference cannot parse signature: {e}"));
                        continue;
                    }
                };
                let want = rs.digest_document(&s).expect("ref digest");
                if ref_digest.is_none() {
                    ref_digest = Some(want.clone());
                    // LF <-> CRLF invariance and sensitivity of the reference itself is trivial;
                    // the library's verify-side is checked below.
                }
                if seen.len() != 1 || seen[0].digest != want {
                    ctx.violation(
                        format!("C14/hasher/digest-mismatch/{}", class(&s)),
                        format!(
                            "SignatureHasher digest differs from RFC digest of canon(s); s={:?} chunks={:?} canon={:?}",
                            String::from_utf8_lossy(&s),
                            splits,
                            String::from_utf8_lossy(&canon)
                        ),
                        json!({"s": hexs(&s), "mask": mask}),
                    );
                }
                if sig.signed_hash_value() != Some([want[0], want[1]]) && seen.len() == 1 && seen[0].digest == want {
                    ctx.violation(
                        "C14/hasher/left16",
                        "left16 differs from digest prefix",
                        json!({"s": hexs(&s), "mask": mask}),
                    );
                }

                // (a2) the same write schedule with zero-length writes in front of, between and behind the
                // pieces (an `io::Write` caller may legally pass an empty buffer at any time)
                if len <= 7 || mask % 4 == si % 4 {
                    let r = ctx.guarded("C14/hasher-empty-writes", || json!({"s": hexs(&s), "mask": mask}), || {
                        let mut h = mk_config().into_hasher().expect("hasher");
                        let _ = h.write(&[]).unwrap();
                        for c in chunks_by_splits(&s, &splits) {
                            h.write_all(c).unwrap();
                            let _ = h.write(&[]).unwrap();
                        }
                        h.sign(&signer, &Password::empty())
                    });
                    ctx.eval();
                    let seen2 = signer.take();
                    match r {
                        Some(Ok(_)) => {
                            if seen2.len() != 1 || seen2[0].digest != want {
                                ctx.violation(
                                    format!("C14/hasher/digest-mismatch/empty-writes/{}", class(&s)),
                                    format!("SignatureHasher digest changes when zero-length writes are interleaved; s={:?} chunks={:?}", String::from_utf8_lossy(&s), splits),
                                    json!({"s": hexs(&s), "mask": mask, "empty_writes": true}),
                                );
                            }
                        }
                        Some(Err(e)) => ctx.violation("C14/hasher/sign-error/empty-writes", format!("sign failed: {e}"), json!({"s": hexs(&s), "mask": mask})),
                        None => {}
                    }
                }

                // (b) verify side: Signature::verify with source schedule = this composition.
                // A reference-made signature (packet from the library but with left16 set from the
                // reference digest) must reach the primitive with the reference digest.
                let mut rs2 = rs.clone();
                rs2.left16 = [want[0], want[1]];
                let body2 = rs2.encode();
                if inline_ref.is_none() && mask == 0 {
                    inline_ref = Some((rs2.clone(), body2.clone(), want.clone()));
                }
                let sig2 = pgp::packet::Signature::try_from_reader(
                    pgp::packet::PacketHeader::new_fixed(pgp::types::Tag::Signature, body2.len() as u32),
                    &body2[..],
                );
                let sig2 = match sig2 {
                    Ok(s) => s,
                    Err(e) => {
                        ctx.inconclusive(format!("library rejects reference signature: {e}"));
                        continue;
                    }
                };
                let ver = RecVerifier {
                    inner: &pubkey.primary_key,
                    seen: Default::default(),
                    accept_all: true,
                };
                let r = ctx.guarded("C14/verify", || json!({"s": hexs(&s), "mask": mask}), || {
                    sig2.verify(&ver, SchedReader::new(s.clone(), Sched::SplitAt(splits.clone())))
                });
                ctx.eval();
                if let Some(r) = r {
                    let seenv = ver.take();
                    match r {
                        Ok(()) => {
                            if seenv.len() != 1 || seenv[0].digest != want {
                                ctx.violation(
                                    format!("C14/verify/digest-mismatch/{}", class(&s)),
                                    format!("Signature::verify hashed a different canonical text for s={:?} chunks={:?}", String::from_utf8_lossy(&s), splits),
                                    json!({"s": hexs(&s), "mask": mask}),
                                );
                            }
                        }
                        Err(e) => {
                            ctx.violation(
                                format!("C14/verify/rejects-rfc-digest/{}", class(&s)),
                                format!("Signature::verify rejected a signature whose left16 is the RFC digest prefix: {e}; s={:?} chunks={:?}", String::from_utf8_lossy(&s), splits),
                                json!({"s": hexs(&s), "mask": mask}),
                            );
                        }
                    }
                }
            }
            // (b2) inline verification (one-pass and prefix form) of the reference-corrected signature of
            // this string: the signed-message reader is a third place that canonicalises while hashing
            if let Some((rs2, body2, want)) = inline_ref.take() {
                for one_pass in [true, false] {
                    for (sn, sched) in [("all", Sched::All), ("1", Sched::Fixed(1)), ("3", Sched::Fixed(3))] {
                        let ver = RecVerifier { inner: &pubkey.primary_key, seen: Default::default(), accept_all: true };
                        let r = ctx.guarded("C14/inline", || json!({"s": hexs(&s), "one_pass": one_pass, "sched": sn}), || {
                            inline_verify(&rs2, &body2, &key_id, &s, one_pass, &rfc::frame::LenForm::NewMin, sched.clone(), &ver)
                        });
                        ctx.eval();
                        let Some(r) = r else { continue };
                        let seenv = ver.take();
                        let form = if one_pass { "one-pass" } else { "prefix" };
                        match r {
                            Ok(()) => {
                                if seenv.len() != 1 || seenv[0].digest != want {
                                    ctx.violation(
                                        format!("C14/inline/{form}/digest-mismatch/{}", class(&s)),
                                        format!("Message::verify hashed a different canonical text for s={:?} (source {sn})", String::from_utf8_lossy(&s)),
                                        json!({"s": hexs(&s), "one_pass": one_pass, "sched": sn}),
                                    );
                                }
                            }
                            Err(e) => ctx.violation(
                                format!("C14/inline/{form}/rejects-rfc-digest/{}", class(&s)),
                                format!("inline verification rejected a text signature whose left16 is the RFC digest prefix: {e}; s={:?} (source {sn})", String::from_utf8_lossy(&s)),
                                json!({"s": hexs(&s), "one_pass": one_pass, "sched": sn}),
                            ),
                        }
                    }
                }
            }
            // (a3) a v6 signer: the random salt is hashed in front of the text and must not pass through (or leave
            // state in) the canonicaliser; fresh salt for every string, two chunkings
            for mask in [0u64, ncomp - 1] {
                let splits = composition_splits(len, mask);
                let mut srng = ctx.rng("A.v6salt", (si * 4 + mask % 2) + ((len as u64) << 40));
                let r = ctx.guarded("C14/hasher-v6", || json!({"s": hexs(&s), "mask": mask}), || {
                    let c = SignatureConfig::v6(&mut srng, SignatureType::Text, key6.primary_key.algorithm(), HashAlgorithm::Sha512).expect("v6 config");
                    let mut h = c.into_hasher().expect("hasher");
                    for c in chunks_by_splits(&s, &splits) {
                        h.write_all(c).unwrap();
                    }
                    h.sign(&signer6, &Password::empty())
                });
                ctx.eval();
                let seen6 = signer6.take();
                match r {
                    Some(Ok(sig)) => {
                        let body = sig.to_bytes().expect("sig bytes");
                        match rfc::sig::parse_sig(&body).ok().and_then(|rs| rs.digest_document(&s).map(|d| (rs, d))) {
                            Some((rs, want6)) => {
                                ctx.seen("A.v6.salt-has-LF-or-CR", if rs.salt.contains(&b'\n') || rs.salt.contains(&b'\r') { "yes" } else { "no" });
                                if seen6.len() != 1 || seen6[0].digest != want6 {
                                    ctx.violation(
                                        format!("C14/hasher/digest-mismatch/v6/{}", class(&s)),
                                        format!("v6 text signature: SignatureHasher digest differs from RFC digest of salt || canon(s); s={:?} chunks={:?} salt={}", String::from_utf8_lossy(&s), splits, hex::encode(&rs.salt)),
                                        json!({"s": hexs(&s), "mask": mask, "v6": true, "salt": hex::encode(&rs.salt)}),
                                    );
                                }
                            }
                            None => ctx.inconclusive("reference cannot parse v6 signature"),
                        }
                    }
                    Some(Err(e)) => ctx.violation("C14/hasher/sign-error/v6", format!("sign failed: {e}"), json!({"s": hexs(&s), "mask": mask})),
                    None => {}
                }
                if ncomp == 1 {
                    break;
                }
            }
            // (c) in-memory normalisation
            if let Ok(st) = std::str::from_utf8(&s) {
                if let Some(Ok(l)) = ctx.guarded("C14/from_str", || json!({"s": hexs(&s)}), || LiteralData::from_str("", st)) {
                    ctx.eval();
                    if l.data() != &canon[..] {
                        ctx.violation(
                            "C14/normalize_lines/mismatch",
                            format!("LiteralData::from_str({:?}).data() = {:?}, want {:?}", st, String::from_utf8_lossy(l.data()), String::from_utf8_lossy(&canon)),
                            json!({"s": hexs(&s)}),
                        );
                    }
                }
            }
            if si == nstr / 2 && len == maxlen {
                ctx.sample(json!({"family": "A", "s": hexs(&s), "canon": hexs(&canon), "chunkings": ncomp, "digest": ref_digest.as_ref().map(|d| hex::encode(d))}));
            }
        }
    }

    // ----------------------------------------------------------------------------------
    // Family B: NormalizedReader (public type) with the pattern placed across its internal 512
    // byte window edge, every alignment, several source schedules and consumer patterns.
    let blen = ctx.qt(6usize, 9usize);
    let consumers = [Consume::ToEnd, Consume::Read(1), Consume::Read(7), Consume::Read(600)];
    for len in 1..=blen {
        let nstr = 3u64.pow(len as u32);
        for si in 0..nstr {
            if !ctx.mine() {
                continue;
            }
            let pat = nth_string(si, len, &ALPHA);
            for edge in [512usize, 1024] {
                // shift 0..=len: pattern straddles the edge, followed by more text;
                // shift len+1 / len+2 / len+3: the *text ends* exactly at edge-1 / edge / edge+1
                for shift in 0..=len + 3 {
                    let mut s;
                    if shift <= len {
                        // pattern starts at edge - shift
                        s = vec![b'x'; edge - shift];
                        s.extend_from_slice(&pat);
                        s.extend_from_slice(b"yy");
                    } else {
                        let end = edge + (shift - len) - 2; // edge-1, edge, edge+1
                        s = vec![b'x'; end - len];
                        s.extend_from_slice(&pat);
                    }
                    let canon = rfc::canon_text(&s);
                    let scheds = [
                        Sched::All,
                        Sched::Fixed(1),
                        Sched::SplitAt(vec![edge - 1, edge, edge + 1]),
                        Sched::Cycle(vec![511, 1, 2]),
                    ];
                    for (k, sc) in scheds.iter().enumerate() {
                        let cons = &consumers[(k + shift + si as usize) % consumers.len()];
                        let r = ctx.guarded("C14/reader", || json!({"pat": hexs(&pat), "edge": edge, "shift": shift}), || {
                            hooks::record(|| {
                                let src = SchedReader::new(s.clone(), sc.clone());
                                let mut nr = NormalizedReader::new(src, LineBreak::Crlf);
                                drain_read(&mut nr, cons)
                            })
                        });
                        ctx.eval();
                        let Some((d, ev)) = r else { continue };
                        for e in &ev {
                            if e.site == "norm.rd.window" {
                                let arm = match (e.b as u8, e.c as u8, e.a > 0) {
                                    (b'\r', b'\n', true) => "CR|LF",
                                    (b'\r', _, _) => "CR|other",
                                    _ => "none",
                                };
                                ctx.seen("hook.norm.rd.window.arm", arm);
                            }
                        }
                        if d.err.is_some() || d.data != canon {
                            ctx.violation(
                                "C14/reader/mismatch",
                                format!("NormalizedReader output differs from canon: pattern {:?} at offset {} sched {} consumer {:?}", String::from_utf8_lossy(&pat), edge - shift, sc.name(), cons),
                                json!({"pat": hexs(&pat), "edge": edge, "shift": shift, "sched": sc.name()}),
                            );
                        }
                    }
                }
            }
            ctx.cover(&("B", &pat));
            if si == 5 && len == blen {
                ctx.sample(json!({"family": "B", "pattern": hexs(&pat), "edges": [512, 1024], "alignments": len + 1}));
            }
        }
    }

    // ----------------------------------------------------------------------------------
    // Family C: Utf8 literal acceptance = (valid UTF-8 and every LF preceded by CR), under all
    // chunkings of the source.
    let alpha_c: [u8; 6] = [b'\r', b'\n', b'a', 0xC3, 0xA9, 0xE2];
    let clen = ctx.qt(5usize, 8usize);
    for len in 0..=clen {
        let nstr = (alpha_c.len() as u64).pow(len as u32);
        for si in 0..nstr {
            if !ctx.mine() {
                continue;
            }
            let s = nth_string(si, len, &alpha_c);
            let want_ok = std::str::from_utf8(&s).is_ok()
                && s.iter().enumerate().all(|(i, b)| *b != b'\n' || (i > 0 && s[i - 1] == b'\r'));
            ctx.cover(&("C", &s));
            let ncomp = 1u64 << len.saturating_sub(1);
            for mask in 0..ncomp {
                let splits = composition_splits(len, mask);
                let r = ctx.guarded("C14/utf8lit", || json!({"s": hexs(&s), "mask": mask}), || {
                    let rng = rand_chacha::ChaCha8Rng::from_seed([1u8; 32]);
                    let mut b = MessageBuilder::from_reader("", SchedReader::new(s.clone(), Sched::SplitAt(splits.clone())));
                    b.data_mode(DataMode::Utf8).expect("utf8 mode");
                    b.to_vec(rng)
                });
                ctx.eval();
                let Some(r) = r else { continue };
                if r.is_ok() != want_ok {
                    ctx.violation(
                        format!("C14/utf8lit/acceptance/{}", if want_ok { "rejects-valid" } else { "accepts-invalid" }),
                        format!("Utf8 literal builder result ok={} but reference predicate says {}: s={:?} chunks={:?}", r.is_ok(), want_ok, s, splits),
                        json!({"s": hexs(&s), "mask": mask}),
                    );
                }
                if let Ok(bytes) = &r {
                    // payload must be carried unchanged
                    if !bytes.ends_with(&s) {
                        ctx.violation("C14/utf8lit/payload-changed", format!("payload changed for {:?}", s), json!({"s": hexs(&s), "mask": mask}));
                    }
                }
                // the same delivery with one read interrupted (EINTR, retried by the library) between any two
                // pieces: still the same text, so the same verdict and the same bytes
                if len <= 4 || mask % 4 == si % 4 {
                    for k in 0..=splits.len() + 1 {
                        let fault = crate::shim::Fault { at_call: k, sticky: false, kind: crate::shim::FaultKind::Interrupted };
                        let r2 = ctx.guarded("C14/utf8lit-interrupted", || json!({"s": hexs(&s), "mask": mask, "interrupted_call": k}), || {
                            let rng = rand_chacha::ChaCha8Rng::from_seed([1u8; 32]);
                            let mut b = MessageBuilder::from_reader("", SchedReader::new(s.clone(), Sched::SplitAt(splits.clone())).with_fault(Some(fault)));
                            b.data_mode(DataMode::Utf8).expect("utf8 mode");
                            b.to_vec(rng)
                        });
                        ctx.eval();
                        let Some(r2) = r2 else { continue };
                        let same = match (&r, &r2) {
                            (Ok(a), Ok(b)) => a == b,
                            (Err(_), Err(_)) => true,
                            _ => false,
                        };
                        if !same {
                            ctx.violation(
                                format!("C14/utf8lit/interrupted-read-changes-verdict/{}", if r.is_ok() { "valid-text-rejected" } else { "invalid-text-accepted" }),
                                format!("Utf8 literal builder: s={:?} chunks={:?}: ok={} without and ok={} with an interrupted read at source call {k}", s, splits, r.is_ok(), r2.is_ok()),
                                json!({"s": hexs(&s), "mask": mask, "interrupted_call": k}),
                            );
                        }
                    }
                }
            }
        }
    }

    // ----------------------------------------------------------------------------------
    // Family D: long random texts with CR/LF at the 512 / 8192 edges, random schedules; digest
    // through hasher (random write sizes), verify (reader), and LF<->CRLF invariance.
    let nrand = ctx.qt(300u64, 40000u64);
    ctx.exhaustive = true; // families A-C enumerated completely; D is sampled on top
    for i in 0..nrand {
        if !ctx.mine() {
            continue;
        }
        let mut rng = ctx.rng("D", i);
        let total = [600usize, 1500, 8192 + 700, 3 * 8192 + 5, 512, 1024, 8192, 2 * 8192, 511, 513, 8191, 8193][(i % 12) as usize];
        let mut s: Vec<u8> = (0..total)
            .map(|_| match rng.gen_range(0..12) {
                0 => b'\r',
                1 => b'\n',
                2 => b' ',
                _ => b'a' + rng.gen_range(0..26u8),
            })
            .collect();
        // every other text carries octets that are not UTF-8 (canonicalisation is defined on octets)
        if i % 2 == 1 {
            for _ in 0..(total / 40).max(1) {
                let at = rng.gen_range(0..s.len());
                if s[at] != b'\r' && s[at] != b'\n' {
                    s[at] = [0xE9u8, 0xFF, 0x80, 0xC3, 0xEF, 0xBF, 0xBD][rng.gen_range(0..7)];
                }
            }
        }
        // force CR / LF / CRLF around the edges
        for edge in [511usize, 512, 513, 1023, 1024, 8191, 8192, 8193, 16384] {
            if edge + 1 < s.len() {
                match rng.gen_range(0..4) {
                    0 => s[edge] = b'\r',
                    1 => s[edge] = b'\n',
                    2 => {
                        s[edge - 1] = b'\r';
                        s[edge] = b'\n'
                    }
                    _ => {}
                }
            }
        }
        if i % 12 >= 4 {
            let l = s.len();
            match (i / 12) % 3 {
                0 => s[l - 1] = b'\r',
                1 => s[l - 1] = b'\n',
                _ => {
                    s[l - 2] = b'\r';
                    s[l - 1] = b'\n'
                }
            }
        }
        ctx.cover(&("D", i));
        let seed = rng.gen::<u64>();
        let sched = match i % 5 {
            0 => Sched::All,
            1 => Sched::Fixed(1),
            2 => Sched::Random(seed, 700),
            3 => Sched::Cycle(vec![511, 1, 512, 8191, 1]),
            _ => Sched::Random(seed, 9000),
        };
        // hasher with random write sizes
        let r = ctx.guarded("C14/hasher", || json!({"family": "D", "i": i}), || {
            let mut h = mk_config().into_hasher().expect("hasher");
            let mut rr = ctx_rng(seed);
            let mut p = 0;
            while p < s.len() {
                let n = rr.gen_range(1..=1024usize).min(s.len() - p);
                h.write_all(&s[p..p + n]).unwrap();
                p += n;
            }
            h.sign(&signer, &Password::empty())
        });
        ctx.eval();
        let Some(Ok(sig)) = r else {
            ctx.violation("C14/hasher/sign-error", "sign failed on long text", json!({"family": "D", "i": i}));
            continue;
        };
        let seen = signer.take();
        let body = sig.to_bytes().unwrap();
        let rs = rfc::sig::parse_sig(&body).unwrap();
        let want = rs.digest_document(&s).unwrap();
        if seen.len() != 1 || seen[0].digest != want {
            ctx.violation(
                format!("C14/hasher/digest-mismatch/{}", class(&s)),
                "long text: hasher digest differs from reference",
                json!({"family": "D", "i": i, "s": hexs(&s)}),
            );
            continue;
        }
        // verify with schedule; and verify LF<->CRLF converted variants; and a changed variant
        let lf_only: Vec<u8> = {
            // convert CRLF -> LF
            let mut o = vec![];
            let mut k = 0;
            while k < s.len() {
                if s[k] == b'\r' && k + 1 < s.len() && s[k + 1] == b'\n' {
                    o.push(b'\n');
                    k += 2;
                } else {
                    o.push(s[k]);
                    k += 1;
                }
            }
            o
        };
        let crlf = rfc::canon_text(&s);
        let mut changed = s.clone();
        let pos = rng.gen_range(0..changed.len());
        changed[pos] = if changed[pos] == b'z' { b'y' } else { b'z' };
        let changed_differs = rfc::canon_text(&changed) != crlf;
        // a CR directly in front of a CRLF makes the LF-only rewrite a different text
        // ("\r\r\n" -> "\r\n"): the expectation is always taken from the reference canon.
        let lf_same = rfc::canon_text(&lf_only) == crlf;
        if lf_same {
            ctx.tally("D.lf_variant_equivalent", 1);
        }
        for (name, doc, must_ok) in [
            ("orig", &s, true),
            ("lf", &lf_only, lf_same),
            ("crlf", &crlf, true),
            ("changed", &changed, !changed_differs),
        ] {
            let ver = RecVerifier { inner: &pubkey.primary_key, seen: Default::default(), accept_all: true };
            let r = ctx.guarded("C14/verify", || json!({"family": "D", "i": i, "variant": name}), || {
                sig.verify(&ver, SchedReader::new(doc.clone(), sched.clone()))
            });
            ctx.eval();
            let Some(r) = r else { continue };
            // accept_all verifier: Ok means left16 matched and the primitive saw a digest
            let seenv = ver.take();
            let same = r.is_ok() && seenv.len() == 1 && seenv[0].digest == want;
            if must_ok && !same {
                ctx.violation(
                    format!("C14/verify/variant-{name}-rejected"),
                    format!("text signature not invariant under {name} delivery (sched {})", sched.name()),
                    json!({"family": "D", "i": i, "variant": name, "s": hexs(&s)}),
                );
            }
            if !must_ok && same {
                ctx.violation(
                    "C14/verify/changed-text-accepted",
                    "text signature digest unchanged after a content change",
                    json!({"family": "D", "i": i, "pos": pos, "s": hexs(&s)}),
                );
            }
            // the composed entry point for detached signatures must agree with the packet-level one
            let ver2 = RecVerifier { inner: &pubkey.primary_key, seen: Default::default(), accept_all: true };
            let ds = pgp::composed::DetachedSignature::new(sig.clone());
            let r2 = ctx.guarded("C14/verify-detached", || json!({"family": "D", "i": i, "variant": name}), || ds.verify(&ver2, &doc[..]));
            ctx.eval();
            if let Some(r2) = r2 {
                let seen2 = ver2.take();
                let same2 = r2.is_ok() && seen2.len() == 1 && seen2[0].digest == want;
                if same2 != same {
                    ctx.violation(
                        format!("C14/verify-detached/disagrees-with-signature-verify/variant-{name}"),
                        format!("DetachedSignature::verify says {} where Signature::verify says {} for the {name} form of a {}-octet text ({})", same2, same, doc.len(), if std::str::from_utf8(doc).is_ok() { "valid UTF-8" } else { "not UTF-8" }),
                        json!({"family": "D", "i": i, "variant": name, "s": hexs(&s)}),
                    );
                }
            }
        }
        // inline verification of the same signature: the document in a literal packet (fixed length, and in
        // partial chunks so that the reader's 8 KiB pieces start at shifted offsets), one-pass and prefix form
        for (vn, doc, must_ok) in [("orig", &s, true), ("crlf", &crlf, true), ("lf", &lf_only, lf_same)] {
            if vn != "orig" && i % 3 != 0 {
                continue;
            }
            for one_pass in [true, false] {
                let lit_form = match (i / 2) % 3 {
                    0 => rfc::frame::LenForm::NewMin,
                    1 => rfc::frame::LenForm::Partial(vec![512], Box::new(rfc::frame::LenForm::NewMin)),
                    _ => rfc::frame::LenForm::Partial(vec![8192, 512], Box::new(rfc::frame::LenForm::NewMin)),
                };
                // the chunk sizes must fit the literal body (6 header octets + document)
                let need: usize = match &lit_form {
                    rfc::frame::LenForm::Partial(c, _) => c.iter().map(|x| *x as usize).sum(),
                    _ => 0,
                };
                let lit_form = if doc.len() + 6 > need { lit_form } else { rfc::frame::LenForm::NewMin };
                let ver = RecVerifier { inner: &pubkey.primary_key, seen: Default::default(), accept_all: true };
                let r = ctx.guarded("C14/inline", || json!({"family": "D", "i": i, "variant": vn, "one_pass": one_pass}), || {
                    inline_verify(&rs, &body, &key_id, doc, one_pass, &lit_form, sched.clone(), &ver)
                });
                ctx.eval();
                let Some(r) = r else { continue };
                let seenv = ver.take();
                let same = r.is_ok() && seenv.len() == 1 && seenv[0].digest == want;
                let form = if one_pass { "one-pass" } else { "prefix" };
                ctx.seen("D.inline", format!("{form}/{vn}/{}", if matches!(lit_form, rfc::frame::LenForm::NewMin) { "fixed" } else { "partial" }));
                if must_ok && !same {
                    ctx.violation(
                        format!("C14/inline/{form}/variant-{vn}-rejected"),
                        format!("inline text signature over a {}-octet text not verified under {vn} delivery (sched {}, result {:?})", doc.len(), sched.name(), r.err()),
                        json!({"family": "D", "i": i, "variant": vn, "one_pass": one_pass, "s": hexs(&s)}),
                    );
                }
                if !must_ok && same {
                    ctx.violation(format!("C14/inline/{form}/different-text-accepted"), "inline text signature digest unchanged for a different text", json!({"family": "D", "i": i, "variant": vn, "s": hexs(&s)}));
                }
            }
        }
        if i < 2 {
            ctx.sample(json!({"family": "D", "len": s.len(), "sched": sched.name(), "digest": hex::encode(&want)}));
        }
    }

    // ----------------------------------------------------------------------------------
    // Family E: the cleartext framework is a fourth canonicalisation site. The LF and the CR LF form of the same
    // document (lines with and without trailing blanks) carry the same signed text, and a message signed in one
    // form verifies after the whole document was converted to the other.
    {
        let line_bodies: [&str; 6] = ["a", "a ", "a \t", "", " ", "- a\t "];
        let key4 = &key;
        let mut ei = 0u64;
        for nl in 1..=ctx.qt(2usize, 3usize) {
            let total = line_bodies.len().pow(nl as u32);
            for idx in 0..total {
                for final_eol in [true, false] {
                    ei += 1;
                    if !ctx.mine() {
                        continue;
                    }
                    let mut lines = vec![];
                    let mut x = idx;
                    for _ in 0..nl {
                        lines.push(line_bodies[x % line_bodies.len()]);
                        x /= line_bodies.len();
                    }
                    let mk = |eol: &str| {
                        let mut t = lines.join(eol);
                        if final_eol {
                            t.push_str(eol);
                        }
                        t
                    };
                    let (t_lf, t_crlf) = (mk("\n"), mk("\r\n"));
                    ctx.cover(&("E", &t_lf));
                    let mut rng = ctx.rng("E", ei);
                    let replay = json!({"family": "E", "text_lf": t_lf});
                    let signed = ctx.guarded("C14/cleartext", || replay.clone(), || {
                        let a = pgp::composed::CleartextSignedMessage::sign(&mut rng, &t_lf, &key4.primary_key, &Password::empty());
                        let b = pgp::composed::CleartextSignedMessage::sign(&mut rng, &t_crlf, &key4.primary_key, &Password::empty());
                        (a, b)
                    });
                    ctx.eval();
                    let Some((Ok(a), Ok(b))) = signed else {
                        ctx.violation("C14/cleartext/sign-error", format!("signing {:?} failed", t_lf), replay.clone());
                        continue;
                    };
                    if a.signed_text() != b.signed_text() {
                        ctx.violation(
                            "C14/cleartext/signed-text-differs-between-lf-and-crlf",
                            format!("signed_text() of the LF form {:?} and of the CR LF form {:?} of the same document differ", a.signed_text(), b.signed_text()),
                            replay.clone(),
                        );
                    }
                    // convert each written document to the other line-ending style as a whole and verify
                    for (name, m, to_crlf) in [("lf->crlf", &a, true), ("crlf->lf", &b, false)] {
                        let Ok(doc) = m.to_armored_string(Default::default()) else { continue };
                        let lf_doc = doc.replace("\r\n", "\n");
                        let conv = if to_crlf { lf_doc.replace('\n', "\r\n") } else { lf_doc };
                        let r = ctx.guarded("C14/cleartext", || replay.clone(), || -> Result<(), String> {
                            let (m2, _) = pgp::composed::CleartextSignedMessage::from_string(&conv).map_err(|e| format!("parse: {e}"))?;
                            m2.verify(&pubkey).map(|_| ()).map_err(|e| format!("verify: {e}"))
                        });
                        ctx.eval();
                        ctx.seen("E.conversion", name);
                        if let Some(Err(e)) = r {
                            ctx.violation(
                                format!("C14/cleartext/not-invariant/{name}"),
                                format!("cleartext message over {:?} does not verify after the document was converted {name}: {e}", t_lf),
                                json!({"base": replay, "document": conv}),
                            );
                        }
                    }
                }
            }
        }
    }

    if hooks::available() {
        let want = ["0-CR", "0-LF", "0-x", "1-CR", "1-LF", "1-x"];
        let have = ctx.sets.get("hook.norm.hash_buf(last_was_cr,first)").cloned().unwrap_or_default();
        // coverage is merged over shards by the driver; here only note
        ctx.extra.insert("hook_pairs_expected".into(), json!(want));
        ctx.extra.insert("hook_pairs_seen_this_shard".into(), json!(have));
    }
}

fn ctx_rng(seed: u64) -> rand_chacha::ChaCha8Rng {
    use rand::SeedableRng;
    rand_chacha::ChaCha8Rng::seed_from_u64(seed)
}

use rand::SeedableRng;
