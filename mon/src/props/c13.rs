//! C13 — fingerprints and key ids are the RFC-defined hashes, identical over all representations
//! of a key, and are the values the library embeds in issuer / recipient fields.

use std::io::Read;

use pgp::composed::{
    ArmorOptions, Deserializable, DetachedSignature, Message, MessageBuilder, SignedPublicKey,
    SignedSecretKey,
};
use pgp::crypto::hash::HashAlgorithm;
use pgp::crypto::sym::SymmetricKeyAlgorithm;
use pgp::packet::{PacketHeader, PublicKey, PublicSubkey};
use pgp::ser::Serialize;
use pgp::types::{KeyDetails, KeyId, Password, Tag};
use rand::{Rng, RngCore};
use serde_json::json;

use crate::core::{hexs, Ctx};
use crate::rfc;
use crate::rfc::frame::{deframe, frame, LenForm};
use crate::rfc::key::RefPub;
use crate::zoo::{self, Alg, Spec};

fn kid(k: &KeyId) -> Vec<u8> {
    k.as_ref().to_vec()
}

/// Compares the library's view of one key (given as KeyDetails) with the reference view of its
/// serialised public key body.
fn check_one(ctx: &mut Ctx, what: &str, pub_body: &[u8], fp: &[u8], id: &[u8], replay: &serde_json::Value) -> Option<RefPub> {
    let Some((rp, n)) = RefPub::parse_prefix(pub_body) else {
        ctx.inconclusive(format!("reference cannot parse public key body ({what})"));
        return None;
    };
    if n != pub_body.len() {
        ctx.inconclusive(format!("reference leaves trailing bytes in public key body ({what})"));
        return None;
    }
    ctx.eval();
    let vclass = format!("v{}", rp.version);
    if rp.fingerprint() != fp {
        ctx.violation(
            format!("C13/fingerprint-mismatch/{vclass}/{what}"),
            format!("fingerprint() = {} but RFC hash of the serialised key = {}", hex::encode(fp), hex::encode(rp.fingerprint())),
            replay.clone(),
        );
    }
    if rp.key_id() != id {
        ctx.violation(
            format!("C13/keyid-mismatch/{vclass}/{what}"),
            format!("legacy_key_id() = {} but RFC key id = {}", hex::encode(id), hex::encode(rp.key_id())),
            replay.clone(),
        );
    }
    Some(rp)
}

fn body_len_class(n: usize) -> &'static str {
    if n <= 255 {
        "<=255"
    } else if n <= 65535 {
        "256..65535"
    } else {
        ">65535"
    }
}

/// All checks on a full certificate produced by the library.
fn check_cert(ctx: &mut Ctx, key: &SignedSecretKey, name: &str, with_messages: bool, idx: u64) {
    let replay = json!({"key": name, "idx": idx});
    let publ = key.to_public_key();

    // ---- every representation of primary and subkeys agrees with the reference
    let prim_body = match key.primary_key.public_key().to_bytes() {
        Ok(b) => b,
        Err(e) => {
            ctx.inconclusive(format!("cannot serialise primary: {e}"));
            return;
        }
    };
    let fp = key.primary_key.fingerprint();
    let id = key.primary_key.legacy_key_id();
    let Some(rprim) = check_one(ctx, "secret-primary", &prim_body, fp.as_bytes(), &kid(&id), &replay) else { return };
    ctx.cover(&("key", name, idx, "primary"));
    ctx.seen("versions", format!("v{}", rprim.version));
    ctx.seen("algorithms", format!("{}", rprim.alg));
    ctx.seen("body_len_class", body_len_class(prim_body.len()));
    let ref_fp = rprim.fingerprint();
    let ref_id = rprim.key_id();

    let mut reps: Vec<(&str, Vec<u8>, Vec<u8>)> = vec![
        ("public-primary", publ.primary_key.fingerprint().as_bytes().to_vec(), kid(&publ.primary_key.legacy_key_id())),
        ("signed-secret", key.fingerprint().as_bytes().to_vec(), kid(&key.legacy_key_id())),
        ("signed-public", publ.fingerprint().as_bytes().to_vec(), kid(&publ.legacy_key_id())),
    ];
    // re-parsed copies
    if let Ok(b) = key.to_bytes() {
        if let Ok(k2) = SignedSecretKey::from_bytes(&b[..]) {
            reps.push(("reparsed-secret", k2.fingerprint().as_bytes().to_vec(), kid(&k2.legacy_key_id())));
        } else {
            ctx.violation("C13/reparse-failed/secret", "own export does not parse", replay.clone());
        }
    }
    if let Ok(s) = publ.to_armored_string(ArmorOptions::default()) {
        if let Ok((p2, _)) = SignedPublicKey::from_string(&s) {
            reps.push(("reparsed-public-armored", p2.fingerprint().as_bytes().to_vec(), kid(&p2.legacy_key_id())));
        } else {
            ctx.violation("C13/reparse-failed/public", "own armored export does not parse", replay.clone());
        }
    }
    for (what, f, i) in &reps {
        ctx.eval();
        if f != &ref_fp || i[..] != ref_id[..] {
            ctx.violation(
                format!("C13/representation-differs/{what}"),
                format!("{what}: fp {} id {} vs reference fp {} id {}", hex::encode(f), hex::encode(i), hex::encode(&ref_fp), hex::encode(ref_id)),
                replay.clone(),
            );
        }
    }

    // subkeys
    let mut sub_refs = vec![];
    for (si, sk) in key.secret_subkeys.iter().enumerate() {
        let body = sk.key.public_key().to_bytes().unwrap_or_default();
        let f = sk.key.fingerprint();
        let i = sk.key.legacy_key_id();
        if let Some(rs) = check_one(ctx, "secret-subkey", &body, f.as_bytes(), &kid(&i), &replay) {
            ctx.cover(&("key", name, idx, "sub", si));
            ctx.seen("algorithms", format!("{}", rs.alg));
            if let Some(ps) = publ.public_subkeys.get(si) {
                ctx.eval();
                if ps.key.fingerprint().as_bytes() != rs.fingerprint() || kid(&ps.key.legacy_key_id())[..] != rs.key_id()[..] {
                    ctx.violation("C13/representation-differs/public-subkey", "public subkey fp/id differs from reference", replay.clone());
                }
            }
            sub_refs.push(rs);
        }
    }

    // the exported certificate, deframed by the reference: key packets hash to the same values
    if let Ok(b) = publ.to_bytes() {
        if let Ok(pk) = deframe(&b) {
            for p in pk.iter().filter(|p| p.tag == 6 || p.tag == 14) {
                if let Some((r, _)) = RefPub::parse_prefix(&p.body) {
                    ctx.eval();
                    let known = r.fingerprint() == ref_fp || sub_refs.iter().any(|s| s.fingerprint() == r.fingerprint());
                    if !known {
                        ctx.violation("C13/export-changes-fingerprint", "a key packet in the exported certificate hashes to an unknown fingerprint", replay.clone());
                    }
                }
            }
            // issuer subpackets of the self signatures
            let mut last_sub: Option<RefPub> = None;
            for p in pk.iter() {
                if p.tag == 14 {
                    last_sub = RefPub::parse_prefix(&p.body).map(|(r, _)| r);
                }
                if p.tag != 2 {
                    continue;
                }
                check_issuer_subpackets(ctx, &p.body, &ref_fp, &ref_id, rprim.version, "self-signature", &replay);
                // embedded primary key binding (back) signature: made by the subkey, so its issuer
                // fields must name the subkey
                if let (Ok(sig), Some(sub)) = (rfc::sig::parse_sig(&p.body), last_sub.as_ref()) {
                    for area in [&sig.hashed, &sig.unhashed] {
                        for sp in rfc::sig::parse_subpackets(area).unwrap_or_default() {
                            if sp.typ == 32 {
                                ctx.seen("embedded", "backsig-issuer");
                                check_issuer_subpackets(ctx, &sp.body, &sub.fingerprint(), &sub.key_id(), sub.version, "embedded-back-signature", &replay);
                            }
                        }
                    }
                }
            }
        }
    }

    if !with_messages {
        return;
    }
    // ---- embedded ids in artefacts made by the library
    let mut rng = ctx.rng("emb", idx);
    // detached signature with default subpackets
    if let Some(Ok(sig)) = ctx.guarded("C13/sign", || replay.clone(), || {
        DetachedSignature::sign_binary_data(&mut rng, &key.primary_key, &Password::empty(), HashAlgorithm::Sha256, &b"hello"[..])
    }) {
        if let Ok(b) = sig.signature.to_bytes() {
            check_issuer_subpackets(ctx, &b, &ref_fp, &ref_id, rprim.version, "detached", &replay);
        }
    }
    // cleartext signature framework and text-mode detached signature: same issuer fields
    if let Some(Ok(csf)) = ctx.guarded("C13/sign-cleartext", || replay.clone(), || {
        pgp::composed::CleartextSignedMessage::sign(&mut rng, "issuer\nfields\n", &key.primary_key, &Password::empty())
    }) {
        for sig in csf.signatures() {
            if let Ok(b) = sig.to_bytes() {
                ctx.seen("embedded", "cleartext-issuer");
                check_issuer_subpackets(ctx, &b, &ref_fp, &ref_id, rprim.version, "cleartext", &replay);
            }
        }
    }
    if let Some(Ok(sig)) = ctx.guarded("C13/sign-text", || replay.clone(), || {
        DetachedSignature::sign_text_data(&mut rng, &key.primary_key, &Password::empty(), HashAlgorithm::Sha512, &b"hello\r\n"[..])
    }) {
        if let Ok(b) = sig.signature.to_bytes() {
            check_issuer_subpackets(ctx, &b, &ref_fp, &ref_id, rprim.version, "detached-text", &replay);
        }
    }
    // third-party certification over another key's user id: issuer fields must name the signer
    {
        let other_spec = Spec::simple(rprim.version == 6, if rprim.version == 6 { Alg::Ed25519 } else { Alg::EcdsaP256 }, None);
        let other = zoo::key(&other_spec, 77);
        let other_pub = other.to_public_key();
        if other.fingerprint() != key.fingerprint() {
            let uid = pgp::packet::UserId::from_str(Default::default(), "Certified <c@example.org>").expect("uid");
            let r = ctx.guarded("C13/third-party", || replay.clone(), || {
                uid.sign_third_party(&mut rng, &key.primary_key, &Password::empty(), &other_pub.primary_key, pgp::packet::SignatureType::CertGeneric)
            });
            if let Some(Ok(su)) = r {
                for sig in &su.signatures {
                    if let Ok(b) = sig.to_bytes() {
                        ctx.seen("embedded", "third-party-cert-issuer");
                        check_issuer_subpackets(ctx, &b, &ref_fp, &ref_id, rprim.version, "third-party-certification", &replay);
                    }
                }
            }
        }
    }
    // one pass signed message
    let mut b = MessageBuilder::from_bytes("", &b"hello"[..]);
    b.sign(&key.primary_key, Password::empty(), HashAlgorithm::Sha256);
    if let Some(Ok(bytes)) = ctx.guarded("C13/msg", || replay.clone(), || b.to_vec(&mut rng)) {
        if let Ok(pk) = deframe(&bytes) {
            for p in &pk {
                if p.tag == 4 {
                    if let Ok(ops) = rfc::sig::parse_ops(&p.body) {
                        ctx.eval();
                        ctx.seen("embedded", format!("ops-v{}", ops.version));
                        let want: &[u8] = if ops.version == 6 { &ref_fp } else { &ref_id };
                        if ops.issuer != want {
                            ctx.violation(
                                format!("C13/embedded/ops-v{}", ops.version),
                                format!("OPS issuer {} differs from reference {}", hex::encode(&ops.issuer), hex::encode(want)),
                                replay.clone(),
                            );
                        }
                    }
                }
                if p.tag == 2 {
                    check_issuer_subpackets(ctx, &p.body, &ref_fp, &ref_id, rprim.version, "inline", &replay);
                }
            }
        }
    }
    // one pass signed message with caller-defined subpackets that carry no Issuer Key ID: the OPS header
    // still names the signer
    {
        use pgp::packet::{Subpacket, SubpacketData};
        let hashed = vec![
            Subpacket::regular(SubpacketData::SignatureCreationTime(pgp::types::Timestamp::from_secs(1_700_000_000))).expect("ts"),
            Subpacket::regular(SubpacketData::IssuerFingerprint(key.primary_key.fingerprint())).expect("fp"),
        ];
        let mut b = MessageBuilder::from_bytes("", &b"hello"[..]);
        b.sign_with_subpackets(&key.primary_key, Password::empty(), HashAlgorithm::Sha512, pgp::composed::SubpacketConfig::UserDefined { hashed, unhashed: vec![] });
        if let Some(Ok(bytes)) = ctx.guarded("C13/msg-user-subpackets", || replay.clone(), || b.to_vec(&mut rng)) {
            if let Ok(pk) = deframe(&bytes) {
                for p in pk.iter().filter(|p| p.tag == 4) {
                    if let Ok(ops) = rfc::sig::parse_ops(&p.body) {
                        ctx.eval();
                        ctx.seen("embedded", format!("ops-v{}-user-subpackets", ops.version));
                        let want: &[u8] = if ops.version == 6 { &ref_fp } else { &ref_id };
                        if ops.issuer != want {
                            ctx.violation(
                                format!("C13/embedded/ops-v{}/user-defined-subpackets", ops.version),
                                format!("OPS issuer {} differs from reference {} when the signature carries caller-defined subpackets without an Issuer Key ID", hex::encode(&ops.issuer), hex::encode(want)),
                                replay.clone(),
                            );
                        }
                    }
                }
            }
        }
    }
    // several recipients on one builder, named and anonymous in both orders: every PKESK carries its own
    // recipient's id, or the wildcard if (and only if) that recipient was added anonymously
    if let (Some(own), true) = (publ.public_subkeys.iter().zip(sub_refs.iter()).find(|(_, r)| matches!(r.alg, 1 | 18 | 25 | 26)), idx % 4 == 0 || idx < 16) {
        let (own_sub, own_ref) = own;
        let other = zoo::key(&Spec::simple(own_ref.version == 6, if own_ref.version == 6 { Alg::Ed25519 } else { Alg::Ed25519Legacy }, Some(Alg::X25519)), 78);
        let other_pub = other.to_public_key();
        if let Some(other_sub) = other_pub.public_subkeys.first() {
            let other_ref = other_sub.key.to_bytes().ok().and_then(|b| RefPub::parse_prefix(&b).map(|x| x.0));
            for v2 in [false, true] {
                // (own named?, other named?, own first?)
                for (own_named, other_named, own_first) in [(true, false, true), (false, true, true), (true, false, false), (false, true, false), (true, true, true), (false, false, true)] {
                    let res = ctx.guarded("C13/encrypt-multi", || replay.clone(), || -> pgp::errors::Result<Vec<u8>> {
                        macro_rules! add {
                            ($b:expr) => {{
                                let order: [(bool, bool); 2] = if own_first { [(true, own_named), (false, other_named)] } else { [(false, other_named), (true, own_named)] };
                                for (is_own, named) in order {
                                    match (is_own, named) {
                                        (true, true) => $b.encrypt_to_key(&mut rng, &own_sub.key).map(|_| ())?,
                                        (true, false) => $b.encrypt_to_key_anonymous(&mut rng, &own_sub.key).map(|_| ())?,
                                        (false, true) => $b.encrypt_to_key(&mut rng, &other_sub.key).map(|_| ())?,
                                        (false, false) => $b.encrypt_to_key_anonymous(&mut rng, &other_sub.key).map(|_| ())?,
                                    }
                                }
                            }};
                        }
                        if v2 {
                            let mut b = MessageBuilder::from_bytes("", &b"hi"[..]).seipd_v2(&mut rng, SymmetricKeyAlgorithm::AES128, pgp::crypto::aead::AeadAlgorithm::Ocb, pgp::crypto::aead::ChunkSize::C64B);
                            add!(b);
                            b.to_vec(&mut rng)
                        } else {
                            let mut b = MessageBuilder::from_bytes("", &b"hi"[..]).seipd_v1(&mut rng, SymmetricKeyAlgorithm::AES128);
                            add!(b);
                            b.to_vec(&mut rng)
                        }
                    });
                    let Some(Ok(bytes)) = res else { continue };
                    let Ok(pk) = deframe(&bytes) else { continue };
                    let pkesks: Vec<_> = pk.iter().filter(|p| p.tag == 1).collect();
                    ctx.eval();
                    ctx.seen("embedded", format!("pkesk-multi-v{}", if v2 { 6 } else { 3 }));
                    if pkesks.len() != 2 {
                        ctx.violation("C13/embedded/pkesk-multi/count", format!("{} PKESK packets for two recipients", pkesks.len()), replay.clone());
                        continue;
                    }
                    let order: [(bool, bool); 2] = if own_first { [(true, own_named), (false, other_named)] } else { [(false, other_named), (true, own_named)] };
                    for (p, (is_own, named)) in pkesks.iter().zip(order) {
                        let r: Option<&RefPub> = if is_own { Some(own_ref) } else { other_ref.as_ref() };
                        let Some(r) = r else { continue };
                        let (field, want): (Vec<u8>, Vec<u8>) = match p.body.first() {
                            Some(3) => (p.body.get(1..9).unwrap_or(&[]).to_vec(), if named { r.key_id().to_vec() } else { vec![0u8; 8] }),
                            Some(6) => {
                                let l = *p.body.get(1).unwrap_or(&0) as usize;
                                let mut w = vec![];
                                if named {
                                    w.push(r.version);
                                    w.extend(r.fingerprint());
                                }
                                (p.body.get(2..2 + l).unwrap_or(&[]).to_vec(), w)
                            }
                            _ => continue,
                        };
                        if field != want {
                            ctx.violation(
                                format!("C13/embedded/pkesk-multi/{}", if named { "named-recipient-field-wrong" } else { "anonymous-recipient-not-wildcard" }),
                                format!("two recipients (own named={own_named}, other named={other_named}, own first={own_first}, SEIPDv{}): PKESK for the {} recipient carries {} instead of {}", if v2 { 2 } else { 1 }, if is_own { "own" } else { "other" }, hex::encode(&field), hex::encode(&want)),
                                replay.clone(),
                            );
                        }
                    }
                }
            }
        }
    }
    // PKESK recipient field
    for (si, sk) in key.secret_subkeys.iter().enumerate() {
        let Some(rs) = sub_refs.get(si) else { continue };
        if !matches!(rs.alg, 1 | 18 | 25 | 26) {
            continue;
        }
        let pubsub = &publ.public_subkeys[si];
        let _ = sk;
        for v2 in [false, true] {
            // (SEIPDv2 makes a v6 PKESK for keys of every version: its recipient field is the key version
            // octet followed by that version's fingerprint)
            let res = ctx.guarded("C13/encrypt", || replay.clone(), || {
                if v2 {
                    let mut b = MessageBuilder::from_bytes("", &b"hi"[..]).seipd_v2(
                        &mut rng,
                        SymmetricKeyAlgorithm::AES128,
                        pgp::crypto::aead::AeadAlgorithm::Ocb,
                        pgp::crypto::aead::ChunkSize::C64B,
                    );
                    b.encrypt_to_key(&mut rng, &pubsub.key).map(|_| ())?;
                    b.to_vec(&mut rng)
                } else {
                    let mut b = MessageBuilder::from_bytes("", &b"hi"[..]).seipd_v1(&mut rng, SymmetricKeyAlgorithm::AES128);
                    b.encrypt_to_key(&mut rng, &pubsub.key).map(|_| ())?;
                    b.to_vec(&mut rng)
                }
            });
            let Some(Ok(bytes)) = res else { continue };
            let Ok(pk) = deframe(&bytes) else { continue };
            for p in pk.iter().filter(|p| p.tag == 1) {
                ctx.eval();
                match p.body.first() {
                    Some(3) => {
                        ctx.seen("embedded", "pkesk-v3");
                        if p.body.len() < 9 || p.body[1..9] != rs.key_id()[..] {
                            ctx.violation("C13/embedded/pkesk-v3", format!("PKESK v3 key id {} differs from reference {}", hex::encode(&p.body[1..9.min(p.body.len())]), hex::encode(rs.key_id())), replay.clone());
                        }
                    }
                    Some(6) => {
                        ctx.seen("embedded", "pkesk-v6");
                        let l = *p.body.get(1).unwrap_or(&0) as usize;
                        let field = p.body.get(2..2 + l).unwrap_or(&[]);
                        let mut want = vec![rs.version];
                        want.extend(rs.fingerprint());
                        if field != &want[..] {
                            ctx.violation("C13/embedded/pkesk-v6", format!("PKESK v6 recipient {} differs from reference {}", hex::encode(field), hex::encode(&want)), replay.clone());
                        }
                    }
                    _ => {}
                }
            }
            // and the message must be decryptable by that key (the id is the right one)
            let ok = match Message::from_bytes(&bytes[..]) {
                Ok(m) => match m.decrypt(&Password::empty(), key) {
                    Ok(mut d) => {
                        let mut out = vec![];
                        d.read_to_end(&mut out).is_ok() && out == b"hi"
                    }
                    Err(_) => false,
                },
                Err(_) => false,
            };
            ctx.eval();
            if !ok {
                ctx.violation("C13/embedded/recipient-cannot-decrypt", "message addressed by the library to this key is not decryptable with it", replay.clone());
            }
        }
    }
}

fn check_issuer_subpackets(ctx: &mut Ctx, sig_body: &[u8], ref_fp: &[u8], ref_id: &[u8; 8], key_version: u8, what: &str, replay: &serde_json::Value) {
    let Ok(s) = rfc::sig::parse_sig(sig_body) else { return };
    for (area, name) in [(&s.hashed, "hashed"), (&s.unhashed, "unhashed")] {
        let Ok(sps) = rfc::sig::parse_subpackets(area) else { continue };
        for sp in sps {
            match sp.typ {
                16 => {
                    ctx.eval();
                    ctx.seen("embedded", "issuer-keyid");
                    if sp.body != ref_id {
                        ctx.violation(
                            format!("C13/embedded/issuer-keyid/{what}"),
                            format!("issuer key id subpacket ({name}) {} != reference {}", hex::encode(&sp.body), hex::encode(ref_id)),
                            replay.clone(),
                        );
                    }
                }
                33 => {
                    ctx.eval();
                    ctx.seen("embedded", format!("issuer-fp-v{key_version}"));
                    let mut want = vec![key_version];
                    want.extend_from_slice(ref_fp);
                    if sp.body != want {
                        ctx.violation(
                            format!("C13/embedded/issuer-fingerprint/{what}"),
                            format!("issuer fingerprint subpacket ({name}) {} != reference {}", hex::encode(&sp.body), hex::encode(&want)),
                            replay.clone(),
                        );
                    }
                }
                _ => {}
            }
        }
    }
}

pub fn run(ctx: &mut Ctx) {
    // ------------------------------------------------------------------------------------
    // Family A: library-generated certificates, many seeds per fast algorithm
    let per_alg = ctx.qt(250u64, 8000u64);
    let mut specs: Vec<Spec> = vec![];
    for s in zoo::signer_specs(true) {
        specs.push(s);
    }
    for s in zoo::encryptor_specs(true) {
        specs.push(s);
    }
    let mut with_sign_sub = Spec::simple(false, Alg::Ed25519Legacy, Some(Alg::EcdhP256));
    with_sign_sub.sign_sub = Some(Alg::EcdsaP384);
    specs.push(with_sign_sub);
    let mut v6_two = Spec::simple(true, Alg::Ed448, Some(Alg::X448));
    v6_two.sign_sub = Some(Alg::Ed25519);
    v6_two.uids = 3;
    specs.push(v6_two);

    for spec in &specs {
        let slow = spec.primary.is_slow() || spec.enc_sub.as_ref().is_some_and(|a| a.is_slow());
        let n = if slow { ctx.qt(1, 3) } else { per_alg };
        for i in 0..n {
            if !ctx.mine() {
                continue;
            }
            crate::core::describe_case(&format!("A:{}", spec.name()));
            let key = if slow {
                zoo::key(spec, i)
            } else {
                let mut s2 = spec.clone();
                let mut rng = ctx.rng(&format!("A-{}", spec.name()), i);
                s2.created = rng.gen_range(1u32..0xFFFF_FFF0);
                match zoo::generate(&s2, &mut rng) {
                    Ok(k) => k,
                    Err(e) => {
                        ctx.inconclusive(format!("generate {}: {e}", spec.name()));
                        continue;
                    }
                }
            };
            check_cert(ctx, &key, &spec.name(), i < 12 || slow, i);
            if i == 0 && ctx.samples.len() < 3 {
                ctx.sample(json!({"family": "A", "spec": spec.name(), "fingerprint": hex::encode(key.fingerprint().as_bytes()), "key_id": hex::encode(key.legacy_key_id().as_ref())}));
            }
        }
    }

    // ------------------------------------------------------------------------------------
    // Family B: reference-encoded public keys (fields chosen by the harness): the library must
    // report the reference hash for whatever it accepts. v3 RSA, v4/v6 RSA with odd bit lengths,
    // DSA/ElGamal shaped MPIs, native 25519/448 material, unknown algorithms with opaque material
    // (bodies > 255 and, for v6, > 65535 octets).
    let nb = ctx.qt(9000u64, 400000u64);
    for i in 0..nb {
        if !ctx.mine() {
            continue;
        }
        let mut rng = ctx.rng("B", i);
        let kind = i % 12;
        let created: u32 = rng.gen();
        let mut rnd_mpi = |rng: &mut rand_chacha::ChaCha8Rng, bits: usize| -> Vec<u8> {
            let bytes = bits.div_ceil(8).max(1);
            let mut v = vec![0u8; bytes];
            rng.fill_bytes(&mut v);
            let top = bits % 8;
            if top != 0 {
                v[0] &= (1u8 << top) - 1;
                v[0] |= 1 << (top - 1);
            } else {
                v[0] |= 0x80;
            }
            rfc::mpi(&v)
        };
        let (version, alg, material, label): (u8, u8, Vec<u8>, &str) = match kind {
            0 => {
                // v2/v3 RSA with every RSA algorithm id (1, 2, 3 share the key material) and, in rotation,
                // zero octets planted where the key id is taken from (low 64 bits of n)
                let mut m = rnd_mpi(&mut rng, 2048 - (i as usize % 9));
                let last = m.len() - 1;
                match (i / 36) % 5 {
                    1 => m[last - 7] = 0,
                    2 => {
                        m[last - 7] = 0;
                        m[last - 6] = 0;
                    }
                    3 => m[last - 7..last].fill(0),
                    4 => m[last - 3] = 0,
                    _ => {}
                }
                m[last] |= 1;
                m.extend(rfc::mpi(&[1, 0, 1]));
                let alg = [1u8, 2, 3][(i / 12 % 3) as usize];
                let ver = if (i / 12) % 8 == 7 { 2 } else { 3 };
                (ver, alg, m, ["v3-rsa", "v3-rsa-encrypt-only", "v3-rsa-sign-only"][(i / 12 % 3) as usize])
            }
            1 => {
                let mut m = rnd_mpi(&mut rng, 1024 + (i as usize % 17));
                let last = m.len() - 1;
                m[last] |= 1;
                m.extend(rfc::mpi(&[1, 0, 1]));
                (4, 1, m, "v4-rsa")
            }
            2 => {
                let mut m = rnd_mpi(&mut rng, 3072);
                let last = m.len() - 1;
                m[last] |= 1;
                m.extend(rfc::mpi(&[3]));
                (6, 1, m, "v6-rsa")
            }
            3 => {
                let mut m = vec![];
                for b in [1024usize, 160, 1023, 1020] {
                    m.extend(rnd_mpi(&mut rng, b));
                }
                (4, 17, m, "v4-dsa")
            }
            4 => {
                let mut m = vec![];
                for b in [1024usize, 2, 1019] {
                    m.extend(rnd_mpi(&mut rng, b));
                }
                (4, 16, m, "v4-elgamal")
            }
            5 => {
                let mut m = vec![0u8; 32];
                rng.fill_bytes(&mut m);
                (if i % 24 < 12 { 4 } else { 6 }, 27, m, "ed25519")
            }
            6 => {
                let mut m = vec![0u8; 32];
                rng.fill_bytes(&mut m);
                (if i % 24 < 12 { 4 } else { 6 }, 25, m, "x25519")
            }
            7 => {
                let mut m = vec![0u8; 56];
                rng.fill_bytes(&mut m);
                (6, 26, m, "x448")
            }
            8 => {
                let mut m = vec![0u8; 57];
                rng.fill_bytes(&mut m);
                (6, 28, m, "ed448")
            }
            9 => {
                // unknown algorithm, v6, opaque material of various sizes (incl. > 65535)
                let len = [0usize, 1, 250, 300, 65530, 65536, 70000][(i / 12 % 7) as usize];
                let mut m = vec![0u8; len];
                rng.fill_bytes(&mut m);
                (6, 99, m, "v6-unknown")
            }
            10 => {
                // EdDSA legacy with a random "point" 0x40||32 bytes
                let mut p = vec![0x40u8];
                let mut r = vec![0u8; 32];
                rng.fill_bytes(&mut r);
                p.extend(r);
                let mut m = vec![rfc::key::OID_ED25519.len() as u8];
                m.extend(rfc::key::OID_ED25519);
                m.extend(rfc::mpi(&p));
                (4, 22, m, "v4-eddsa-legacy")
            }
            _ => {
                // ECDH curve25519 legacy
                let mut p = vec![0x40u8];
                let mut r = vec![0u8; 32];
                rng.fill_bytes(&mut r);
                p.extend(r);
                let mut m = vec![rfc::key::OID_CV25519.len() as u8];
                m.extend(rfc::key::OID_CV25519);
                m.extend(rfc::mpi(&p));
                m.extend([3, 1, 8, 7]);
                (4, 18, m, "v4-ecdh-cv25519")
            }
        };
        let rp = RefPub { version, created, v3_expiry_days: (i % 400) as u16, alg, material };
        let body = rp.encode();
        let is_sub = i % 3 == 0 && version > 3;
        let replay = json!({"family": "B", "label": label, "body": hexs(&body), "subkey": is_sub});
        crate::core::describe_case(&format!("B:{label}"));
        let hdr = PacketHeader::new_fixed(if is_sub { Tag::PublicSubkey } else { Tag::PublicKey }, body.len() as u32);
        let parsed: Option<Result<(Vec<u8>, Vec<u8>, Vec<u8>), String>> = ctx.guarded("C13/B", || replay.clone(), || {
            if is_sub {
                PublicSubkey::try_from_reader(hdr, &body[..]).map_err(|e| e.to_string()).map(|k| {
                    (k.fingerprint().as_bytes().to_vec(), kid(&k.legacy_key_id()), k.to_bytes().unwrap_or_default())
                })
            } else {
                PublicKey::try_from_reader(hdr, &body[..]).map_err(|e| e.to_string()).map(|k| {
                    (k.fingerprint().as_bytes().to_vec(), kid(&k.legacy_key_id()), k.to_bytes().unwrap_or_default())
                })
            }
        });
        ctx.eval();
        match parsed {
            None => {}
            Some(Err(_)) => ctx.tally(&format!("B.rejected.{label}"), 1),
            Some(Ok((fp, id, reser))) => {
                ctx.tally(&format!("B.accepted.{label}"), 1);
                ctx.cover(&("B", label, i));
                ctx.seen("versions", format!("v{version}"));
                ctx.seen("body_len_class", body_len_class(body.len()));
                if fp != rp.fingerprint() {
                    ctx.violation(
                        format!("C13/fingerprint-mismatch/v{version}/wire-{label}"),
                        format!("fingerprint() = {} but RFC hash of the wire body = {}", hex::encode(&fp), hex::encode(rp.fingerprint())),
                        replay.clone(),
                    );
                }
                if id[..] != rp.key_id()[..] {
                    ctx.violation(
                        format!("C13/keyid-mismatch/v{version}/wire-{label}"),
                        format!("legacy_key_id() = {} but RFC key id = {}", hex::encode(&id), hex::encode(rp.key_id())),
                        replay.clone(),
                    );
                }
                if reser != body {
                    ctx.violation(
                        format!("C13/reserialise-differs/wire-{label}"),
                        "canonical wire body is not re-serialised identically (so a re-exported key would hash differently)",
                        replay.clone(),
                    );
                }
                // through the packet parser with every framing: same fingerprint
                if i % 7 == 0 {
                    let tag = if is_sub { 14 } else { 6 };
                    for form in [LenForm::NewMin, LenForm::New5, LenForm::Old2, LenForm::Old4] {
                        if let Some(f) = frame(tag, &body, &form) {
                            let pk: Vec<_> = pgp::packet::PacketParser::new(&f[..]).collect();
                            ctx.eval();
                            let ok = pk.len() == 1
                                && match &pk[0] {
                                    Ok(pgp::packet::Packet::PublicKey(k)) => k.fingerprint().as_bytes() == fp,
                                    Ok(pgp::packet::Packet::PublicSubkey(k)) => k.fingerprint().as_bytes() == fp,
                                    _ => false,
                                };
                            if !ok {
                                ctx.violation(format!("C13/framing-changes-fingerprint/{label}"), format!("key framed as {form:?} parsed differently"), replay.clone());
                            }
                        }
                    }
                }
                if i < 24 {
                    ctx.sample(json!({"family": "B", "label": label, "version": version, "body_len": body.len(), "fingerprint": hex::encode(&fp), "key_id": hex::encode(&id)}));
                }
            }
        }
    }

    // ------------------------------------------------------------------------------------
    // Family Bz: the same keys with non-canonical MPI encodings: z leading zero octets in front of one of the
    // public parameters (declared bit count covering them, or the canonical count of the value plus the zero
    // octets). A library that accepts such a key has to report either the hash of the octets it was given or
    // the hash of the canonical encoding of the same numbers, the very value it reports for the copy it writes
    // (secret / public / re-parsed copies agree), and what it writes must be a fixpoint.
    let nbz = ctx.qt(1600u64, 40000u64);
    for i in 0..nbz {
        if !ctx.mine() {
            continue;
        }
        let mut rng = ctx.rng("Bz", i);
        let created: u32 = rng.gen();
        let (version, alg, bitsv, label): (u8, u8, Vec<usize>, &str) = match i % 4 {
            0 => (4, 1, vec![1024 + (i as usize / 4 % 9), 17], "v4-rsa"),
            1 => (4, 17, vec![1024, 160, 1023, 1017 + (i as usize / 4 % 8)], "v4-dsa"),
            2 => (4, 16, vec![1024, 2, 1001 + (i as usize / 4 % 24)], "v4-elgamal"),
            _ => (6, 1, vec![2048, 17], "v6-rsa"),
        };
        let vals: Vec<Vec<u8>> = bitsv
            .iter()
            .map(|&bits| {
                let bytes = bits.div_ceil(8).max(1);
                let mut v = vec![0u8; bytes];
                rng.fill_bytes(&mut v);
                let top = bits % 8;
                if top != 0 {
                    v[0] &= (1u8 << top) - 1;
                    v[0] |= 1 << (top - 1);
                } else {
                    v[0] |= 0x80;
                }
                let l = v.len() - 1;
                v[l] |= 1;
                v
            })
            .collect();
        let which = (i as usize / 4) % vals.len();
        let z = [1usize, 2, 3, 8][(i as usize / 16) % 4];
        let honest_bits = (i / 64) % 2 == 0;
        let canonical: Vec<u8> = vals.iter().flat_map(|v| rfc::mpi(v)).collect();
        let mut padded: Vec<u8> = vec![];
        for (j, v) in vals.iter().enumerate() {
            if j == which {
                let real = v.len() * 8 - v[0].leading_zeros() as usize;
                // the length field has to cover the zero octets for the reader to consume them
                let declared = if honest_bits { (v.len() + z) * 8 } else { (v.len() + z - 1) * 8 + 1 + (real - 1) % 8 };
                padded.extend((declared as u16).to_be_bytes());
                padded.extend(std::iter::repeat(0u8).take(z));
                padded.extend_from_slice(v);
            } else {
                padded.extend(rfc::mpi(v));
            }
        }
        let rp_wire = RefPub { version, created, v3_expiry_days: 0, alg, material: padded };
        let rp_canon = RefPub { version, created, v3_expiry_days: 0, alg, material: canonical };
        let body = rp_wire.encode();
        let replay = json!({"family": "Bz", "label": label, "body": hexs(&body), "padded_parameter": which, "zero_octets": z});
        crate::core::describe_case(&format!("Bz:{label}"));
        let hdr = PacketHeader::new_fixed(Tag::PublicKey, body.len() as u32);
        type R = (Vec<u8>, Vec<u8>, Vec<u8>);
        let parsed: Option<Result<(R, Option<R>), String>> = ctx.guarded("C13/Bz", || replay.clone(), || {
            PublicKey::try_from_reader(hdr, &body[..]).map_err(|e| e.to_string()).map(|k| {
                let w = k.to_bytes().unwrap_or_default();
                let first = (k.fingerprint().as_bytes().to_vec(), kid(&k.legacy_key_id()), w.clone());
                let again = PublicKey::try_from_reader(PacketHeader::new_fixed(Tag::PublicKey, w.len() as u32), &w[..])
                    .ok()
                    .map(|k2| (k2.fingerprint().as_bytes().to_vec(), kid(&k2.legacy_key_id()), k2.to_bytes().unwrap_or_default()));
                (first, again)
            })
        });
        ctx.eval();
        match parsed {
            None => {}
            Some(Err(_)) => ctx.tally(&format!("Bz.rejected.{label}"), 1),
            Some(Ok(((fp, id, w), again))) => {
                ctx.tally(&format!("Bz.accepted.{label}"), 1);
                ctx.cover(&("Bz", label, which, z, honest_bits));
                ctx.seen("Bz.cells", format!("{label}|param{which}|z{z}|{}", if honest_bits { "bits-cover-zeros" } else { "bits-minimal" }));
                let by_wire = fp == rp_wire.fingerprint() && id[..] == rp_wire.key_id()[..];
                let by_canon = fp == rp_canon.fingerprint() && id[..] == rp_canon.key_id()[..];
                ctx.tally(if by_canon { "Bz.hash-of-canonical-encoding" } else if by_wire { "Bz.hash-of-wire-octets" } else { "Bz.other" }, 1);
                if !by_wire && !by_canon {
                    ctx.violation(
                        format!("C13/fingerprint-mismatch/v{version}/padded-mpi-{label}"),
                        format!(
                            "key with {z} zero octets in front of parameter {which}: fingerprint() = {} is neither the RFC hash of the octets given ({}) nor of the canonical encoding ({})",
                            hex::encode(&fp), hex::encode(rp_wire.fingerprint()), hex::encode(rp_canon.fingerprint())
                        ),
                        replay.clone(),
                    );
                }
                match again {
                    None => ctx.violation(
                        format!("C13/rewritten-copy-refused/padded-mpi-{label}"),
                        format!("key with {z} zero octets in front of parameter {which} is accepted, but what the library writes for it is refused"),
                        replay.clone(),
                    ),
                    Some((fp2, id2, w2)) => {
                        if fp2 != fp || id2 != id {
                            ctx.violation(
                                format!("C13/unstable-after-reparse/padded-mpi-{label}"),
                                format!("fingerprint {} / key id {} become {} / {} for the re-parsed copy", hex::encode(&fp), hex::encode(&id), hex::encode(&fp2), hex::encode(&id2)),
                                replay.clone(),
                            );
                        }
                        if w2 != w {
                            ctx.violation(
                                format!("C13/reserialise-differs/padded-mpi-{label}"),
                                "the written copy of the key is not re-serialised identically (a re-exported key would hash differently)",
                                replay.clone(),
                            );
                        }
                    }
                }
            }
        }
    }

    // ------------------------------------------------------------------------------------
    // Family C: key fixtures of the repository (read-only): parse with the library, compare
    // with the reference view of the same wire bytes.
    let mut files: Vec<std::path::PathBuf> = vec![];
    collect_key_files(std::path::Path::new("/repo/tests"), &mut files, 0);
    files.sort();
    for (fi, f) in files.iter().enumerate() {
        if !ctx.mine() {
            continue;
        }
        let Ok(data) = std::fs::read(f) else { continue };
        if data.len() > 300_000 {
            continue;
        }
        crate::core::describe_case(&format!("C:{}", f.display()));
        // dearmor with the library if armored, else raw
        let bin: Vec<u8> = if data.starts_with(b"-----BEGIN") || data.windows(10).take(200).any(|w| w == b"-----BEGIN") {
            let mut d = pgp::armor::Dearmor::new(std::io::BufReader::new(&data[..]));
            let mut out = vec![];
            if ctx.guarded("C13/C/dearmor", || json!({"file": f.display().to_string()}), || d.read_to_end(&mut out).is_ok()) != Some(true) {
                continue;
            }
            out
        } else {
            data.clone()
        };
        let Ok(raw) = deframe(&bin) else { continue };
        let replay = json!({"family": "C", "file": f.display().to_string()});
        let parsed: Vec<_> = match ctx.guarded("C13/C/parse", || replay.clone(), || pgp::packet::PacketParser::new(&bin[..]).collect::<Vec<_>>()) {
            Some(p) => p,
            None => continue,
        };
        if parsed.len() != raw.len() {
            continue;
        }
        for (rp, lp) in raw.iter().zip(parsed.iter()) {
            let Ok(lp) = lp else { continue };
            let (fp, id): (Vec<u8>, Vec<u8>) = match lp {
                pgp::packet::Packet::PublicKey(k) => (k.fingerprint().as_bytes().to_vec(), kid(&k.legacy_key_id())),
                pgp::packet::Packet::PublicSubkey(k) => (k.fingerprint().as_bytes().to_vec(), kid(&k.legacy_key_id())),
                pgp::packet::Packet::SecretKey(k) => (k.fingerprint().as_bytes().to_vec(), kid(&k.legacy_key_id())),
                pgp::packet::Packet::SecretSubkey(k) => (k.fingerprint().as_bytes().to_vec(), kid(&k.legacy_key_id())),
                _ => continue,
            };
            let Some((r, _)) = RefPub::parse_prefix(&rp.body) else {
                ctx.tally("C.reference-cannot-parse", 1);
                continue;
            };
            // only canonical MPI encodings are judged: the library normalises non-canonical MPIs
            ctx.eval();
            ctx.cover(&("C", fi, rp.offset));
            ctx.seen("versions", format!("v{}", r.version));
            ctx.seen("algorithms", format!("{}", r.alg));
            if fp != r.fingerprint() || id[..] != r.key_id()[..] {
                let canon = canonical_material(&r);
                ctx.violation(
                    format!("C13/fixture/fingerprint-or-keyid-mismatch/v{}/{}", r.version, if canon { "canonical" } else { "noncanonical-mpi" }),
                    format!("{}: library fp {} id {} vs reference fp {} id {}", f.display(), hex::encode(&fp), hex::encode(&id), hex::encode(r.fingerprint()), hex::encode(r.key_id())),
                    replay.clone(),
                );
            }
        }
    }
}

/// true if every MPI of the (known-layout) material is canonically encoded
fn canonical_material(r: &RefPub) -> bool {
    let n = match r.alg {
        1 | 2 | 3 => 2,
        16 => 3,
        17 => 4,
        _ => return true,
    };
    let mut p = 0;
    for _ in 0..n {
        let Some((v, np)) = rfc::read_mpi(&r.material, p) else { return false };
        let bits = u16::from_be_bytes([r.material[p], r.material[p + 1]]) as usize;
        let real = if v.is_empty() { 0 } else { v.len() * 8 - v[0].leading_zeros() as usize };
        if bits != real {
            return false;
        }
        p = np;
    }
    true
}

fn collect_key_files(dir: &std::path::Path, out: &mut Vec<std::path::PathBuf>, depth: usize) {
    if depth > 6 || out.len() > 1500 {
        return;
    }
    let Ok(rd) = std::fs::read_dir(dir) else { return };
    let mut entries: Vec<_> = rd.flatten().map(|e| e.path()).collect();
    entries.sort();
    for p in entries {
        if p.is_dir() {
            collect_key_files(&p, out, depth + 1);
        } else if let Some(ext) = p.extension().and_then(|e| e.to_str()) {
            if matches!(ext, "asc" | "key" | "pub" | "sec" | "gpg" | "pgp" | "cert" | "tsk") {
                out.push(p);
            }
        }
    }
}
