//! `mon` — runtime monitors for rPGP. One process = one shard of one property check.
//!
//! usage: mon <PROP> --tier quick|thorough --seed N --shard I --nshards N --out FILE [--only CASE]

#![allow(dead_code)]
mod core;
mod hooks;
mod props;
mod rec;
mod rfc;
mod shim;
mod zoo;

use crate::core::{Ctx, Tier};

#[global_allocator]
static ALLOC: shim::CountingAlloc = shim::CountingAlloc;

fn main() {
    let args: Vec<String> = std::env::args().collect();
    if args.len() < 2 {
        eprintln!("usage: mon <PROP> --tier quick|thorough --seed N --shard I --nshards N --out FILE [--only CASE]");
        std::process::exit(2);
    }
    let prop = args[1].clone();
    let mut tier = Tier::Quick;
    let mut seed = 1u64;
    let mut shard = 0u64;
    let mut nshards = 1u64;
    let mut out = String::new();
    let mut only = None;
    let mut skip: std::collections::HashSet<u64> = Default::default();
    let mut budget_ms = 60_000u64;
    let mut i = 2;
    while i < args.len() {
        let v = args.get(i + 1).cloned().unwrap_or_default();
        match args[i].as_str() {
            "--tier" => tier = if v == "thorough" { Tier::Thorough } else { Tier::Quick },
            "--seed" => seed = v.parse().expect("seed"),
            "--shard" => shard = v.parse().expect("shard"),
            "--nshards" => nshards = v.parse().expect("nshards"),
            "--out" => out = v,
            "--only" => only = Some(v.parse().expect("only")),
            "--skip" => skip = v.split(',').filter_map(|x| x.parse().ok()).collect(),
            "--budget-ms" => budget_ms = v.parse().expect("budget"),
            x => {
                eprintln!("unknown arg {x}");
                std::process::exit(2);
            }
        }
        i += 2;
    }
    core::install_panic_hook();
    core::install_crash_handler();
    core::set_case_budget_ms(budget_ms);
    core::start_watchdog();

    let mut ctx = Ctx::new(&prop, tier, seed, shard, nshards);
    ctx.only = only;
    ctx.skip = skip;
    ctx.engine = if cfg!(debug_assertions) { "chk".into() } else { "rel".into() };
    if !hooks::available() {
        ctx.note("hooks: unavailable (library built without --cfg rpgp_verif)");
    }

    if let Err(e) = rfc::selfcheck::run(prop == "SELFCHECK") {
        ctx.inconclusive(format!("reference self-check failed: {e}"));
    } else {
        let t0 = std::time::Instant::now();
        match prop.as_str() {
            "C01" => props::c01::run(&mut ctx),
            "C02" => props::c02::run(&mut ctx),
            "C03" => props::c03::run(&mut ctx),
            "C04" => props::c04::run(&mut ctx),
            "C05" => props::c05::run(&mut ctx),
            "C06" => props::c06::run(&mut ctx),
            "C07" => props::c07::run(&mut ctx),
            "C08" => props::c08::run(&mut ctx),
            "C09" => props::c09::run(&mut ctx),
            "C10" => props::c10::run(&mut ctx),
            "C11" => props::c11::run(&mut ctx),
            "C12" => props::c12::run(&mut ctx),
            "C13" => props::c13::run(&mut ctx),
            "C14" => props::c14::run(&mut ctx),
            "C15" => props::c15::run(&mut ctx),
            "C16" => props::c16::run(&mut ctx),
            "C17" => props::c17::run(&mut ctx),
            "C18" => props::c18::run(&mut ctx),
            "C19" => props::c19::run(&mut ctx),
            "ZOO" => zoo::warm(),
            "DBG08" => props::c08::debug(&out),
            "SELFCHECK" => println!("MON-SELFCHECK-OK"),
            _ => {
                eprintln!("unknown property {prop}");
                std::process::exit(2);
            }
        }
        ctx.extra.insert("shard_wall_s".into(), serde_json::json!(t0.elapsed().as_secs_f64()));
    }
    let js = serde_json::to_string(&ctx.to_json()).expect("json");
    if out.is_empty() {
        println!("{js}");
    } else {
        std::fs::write(&out, js).expect("write out");
    }
    println!("MON-DONE");
}
