//! Thin wrapper around the cfg-guarded event hooks of the library. When the library was built
//! without `--cfg rpgp_verif` (fallback build) everything here is a no-op and `available()` is false.

#[derive(Debug, Clone, Copy, PartialEq, Eq)]
pub struct Ev {
    pub site: &'static str,
    pub a: u64,
    pub b: u64,
    pub c: u64,
}

#[cfg(rpgp_verif)]
mod imp {
    use super::Ev;
    pub fn available() -> bool {
        true
    }
    pub fn enable(on: bool) {
        pgp::verif_hooks::enable(on);
        if on {
            let _ = pgp::verif_hooks::take();
        }
    }
    pub fn take() -> Vec<Ev> {
        pgp::verif_hooks::take()
            .into_iter()
            .map(|e| Ev {
                site: e.site,
                a: e.a,
                b: e.b,
                c: e.c,
            })
            .collect()
    }
}

#[cfg(not(rpgp_verif))]
mod imp {
    use super::Ev;
    pub fn available() -> bool {
        false
    }
    pub fn enable(_on: bool) {}
    pub fn take() -> Vec<Ev> {
        vec![]
    }
}

pub use imp::*;

/// Runs `f` with recording on and returns its events.
pub fn record<T>(f: impl FnOnce() -> T) -> (T, Vec<Ev>) {
    enable(true);
    let r = f();
    let ev = take();
    enable(false);
    (r, ev)
}
