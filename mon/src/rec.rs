//! Recording wrappers around the library's key traits: they delegate to a real key and record
//! what the public-key primitive is asked to sign / verify / encrypt.

use std::cell::RefCell;

use pgp::crypto::hash::HashAlgorithm;
use pgp::crypto::public_key::PublicKeyAlgorithm;
use pgp::types::{
    EncryptionKey, EskType, Fingerprint, KeyDetails, KeyId, KeyVersion, Password, PkeskBytes,
    PublicParams, SignatureBytes, SigningKey, Timestamp, VerifyingKey,
};

#[derive(Debug, Clone)]
pub struct SeenDigest {
    pub hash_alg: u8,
    pub digest: Vec<u8>,
}

pub struct RecSigner<'a> {
    pub inner: &'a dyn SigningKey,
    pub seen: RefCell<Vec<SeenDigest>>,
    /// do not call the real key; return a dummy signature value (only the digest is of interest)
    pub dry: bool,
}

impl std::fmt::Debug for RecSigner<'_> {
    fn fmt(&self, f: &mut std::fmt::Formatter<'_>) -> std::fmt::Result {
        write!(f, "RecSigner")
    }
}

impl<'a> RecSigner<'a> {
    pub fn new(inner: &'a dyn SigningKey) -> Self {
        RecSigner {
            inner,
            seen: RefCell::new(vec![]),
            dry: false,
        }
    }
    pub fn dry(inner: &'a dyn SigningKey) -> Self {
        RecSigner {
            inner,
            seen: RefCell::new(vec![]),
            dry: true,
        }
    }
    pub fn take(&self) -> Vec<SeenDigest> {
        std::mem::take(&mut *self.seen.borrow_mut())
    }
}

impl KeyDetails for RecSigner<'_> {
    fn version(&self) -> KeyVersion {
        self.inner.version()
    }
    fn legacy_key_id(&self) -> KeyId {
        self.inner.legacy_key_id()
    }
    fn fingerprint(&self) -> Fingerprint {
        self.inner.fingerprint()
    }
    fn algorithm(&self) -> PublicKeyAlgorithm {
        self.inner.algorithm()
    }
    fn created_at(&self) -> Timestamp {
        self.inner.created_at()
    }
    fn legacy_v3_expiration_days(&self) -> Option<u16> {
        self.inner.legacy_v3_expiration_days()
    }
    fn public_params(&self) -> &PublicParams {
        self.inner.public_params()
    }
}

impl SigningKey for RecSigner<'_> {
    fn sign(
        &self,
        key_pw: &Password,
        hash: HashAlgorithm,
        data: &[u8],
    ) -> pgp::errors::Result<SignatureBytes> {
        self.seen.borrow_mut().push(SeenDigest {
            hash_alg: hash.into(),
            digest: data.to_vec(),
        });
        if self.dry {
            return Ok(match self.inner.algorithm() {
                PublicKeyAlgorithm::Ed25519 => SignatureBytes::Native(vec![0u8; 64].into()),
                PublicKeyAlgorithm::Ed448 => SignatureBytes::Native(vec![0u8; 114].into()),
                PublicKeyAlgorithm::RSA => {
                    SignatureBytes::Mpis(vec![pgp::types::Mpi::from_slice(&[1u8; 256])])
                }
                _ => SignatureBytes::Mpis(vec![
                    pgp::types::Mpi::from_slice(&[1u8; 32]),
                    pgp::types::Mpi::from_slice(&[1u8; 32]),
                ]),
            });
        }
        self.inner.sign(key_pw, hash, data)
    }
    fn hash_alg(&self) -> HashAlgorithm {
        self.inner.hash_alg()
    }
}

/// Recording verifier. `accept_all`: do not call the real key, return Ok (used to observe the
/// digest of signatures whose cryptographic value is a dummy).
pub struct RecVerifier<'a, K: VerifyingKey> {
    pub inner: &'a K,
    pub seen: RefCell<Vec<SeenDigest>>,
    pub accept_all: bool,
}

impl<K: VerifyingKey> std::fmt::Debug for RecVerifier<'_, K> {
    fn fmt(&self, f: &mut std::fmt::Formatter<'_>) -> std::fmt::Result {
        write!(f, "RecVerifier")
    }
}

impl<'a, K: VerifyingKey> RecVerifier<'a, K> {
    pub fn new(inner: &'a K) -> Self {
        RecVerifier {
            inner,
            seen: RefCell::new(vec![]),
            accept_all: false,
        }
    }
    pub fn take(&self) -> Vec<SeenDigest> {
        std::mem::take(&mut *self.seen.borrow_mut())
    }
}

impl<K: VerifyingKey> KeyDetails for RecVerifier<'_, K> {
    fn version(&self) -> KeyVersion {
        self.inner.version()
    }
    fn legacy_key_id(&self) -> KeyId {
        self.inner.legacy_key_id()
    }
    fn fingerprint(&self) -> Fingerprint {
        self.inner.fingerprint()
    }
    fn algorithm(&self) -> PublicKeyAlgorithm {
        self.inner.algorithm()
    }
    fn created_at(&self) -> Timestamp {
        self.inner.created_at()
    }
    fn legacy_v3_expiration_days(&self) -> Option<u16> {
        self.inner.legacy_v3_expiration_days()
    }
    fn public_params(&self) -> &PublicParams {
        self.inner.public_params()
    }
}

impl<K: VerifyingKey> VerifyingKey for RecVerifier<'_, K> {
    fn verify(
        &self,
        hash: HashAlgorithm,
        data: &[u8],
        sig: &SignatureBytes,
    ) -> pgp::errors::Result<()> {
        self.seen.borrow_mut().push(SeenDigest {
            hash_alg: hash.into(),
            digest: data.to_vec(),
        });
        if self.accept_all {
            Ok(())
        } else {
            self.inner.verify(hash, data, sig)
        }
    }
}

impl<K: VerifyingKey + pgp::ser::Serialize> pgp::ser::Serialize for RecVerifier<'_, K> {
    fn to_writer<W: std::io::Write>(&self, w: &mut W) -> pgp::errors::Result<()> {
        self.inner.to_writer(w)
    }
    fn write_len(&self) -> usize {
        self.inner.write_len()
    }
}

/// Recording encryption key: records the plaintext (session key framing) handed to `encrypt`.
pub struct RecEncryptor<'a, K: EncryptionKey> {
    pub inner: &'a K,
    pub seen: RefCell<Vec<(Vec<u8>, bool)>>,
}

impl<K: EncryptionKey> std::fmt::Debug for RecEncryptor<'_, K> {
    fn fmt(&self, f: &mut std::fmt::Formatter<'_>) -> std::fmt::Result {
        write!(f, "RecEncryptor")
    }
}

impl<'a, K: EncryptionKey> RecEncryptor<'a, K> {
    pub fn new(inner: &'a K) -> Self {
        RecEncryptor {
            inner,
            seen: RefCell::new(vec![]),
        }
    }
}

impl<K: EncryptionKey> KeyDetails for RecEncryptor<'_, K> {
    fn version(&self) -> KeyVersion {
        self.inner.version()
    }
    fn legacy_key_id(&self) -> KeyId {
        self.inner.legacy_key_id()
    }
    fn fingerprint(&self) -> Fingerprint {
        self.inner.fingerprint()
    }
    fn algorithm(&self) -> PublicKeyAlgorithm {
        self.inner.algorithm()
    }
    fn created_at(&self) -> Timestamp {
        self.inner.created_at()
    }
    fn legacy_v3_expiration_days(&self) -> Option<u16> {
        self.inner.legacy_v3_expiration_days()
    }
    fn public_params(&self) -> &PublicParams {
        self.inner.public_params()
    }
}

impl<K: EncryptionKey> EncryptionKey for RecEncryptor<'_, K> {
    fn encrypt<R: rand::CryptoRng + rand::Rng>(
        &self,
        rng: R,
        plain: &[u8],
        typ: EskType,
    ) -> pgp::errors::Result<PkeskBytes> {
        self.seen
            .borrow_mut()
            .push((plain.to_vec(), matches!(typ, EskType::V6)));
        self.inner.encrypt(rng, plain, typ)
    }
}
