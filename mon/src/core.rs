//! Shared plumbing of the monitors: case accounting, sharding, seeded randomness,
//! coverage tallies, violation records, panic capture, watchdog.

use std::cell::RefCell;
use std::collections::{BTreeMap, BTreeSet, HashSet};
use std::hash::{Hash, Hasher};
use std::panic::{catch_unwind, AssertUnwindSafe};
use std::sync::atomic::{AtomicBool, AtomicU64, AtomicUsize, Ordering};

use rand::SeedableRng;
use rand_chacha::ChaCha8Rng;
use serde_json::{json, Value};

#[derive(Clone, Copy, PartialEq, Eq, Debug)]
pub enum Tier {
    Quick,
    Thorough,
}

pub struct Violation {
    /// signature: what is matched against known_findings.json
    pub sig: String,
    pub detail: String,
    pub replay: Value,
    pub case: u64,
}

pub struct Ctx {
    pub prop: String,
    pub tier: Tier,
    pub seed: u64,
    pub shard: u64,
    pub nshards: u64,
    pub only: Option<u64>,
    pub skip: HashSet<u64>,
    pub case_counter: u64,
    pub evals: u64,
    pub distinct: HashSet<u64>,
    pub samples: Vec<Value>,
    pub violations: Vec<Violation>,
    pub nviol: u64,
    pub viol_by_sig: BTreeMap<String, u64>,
    pub inconclusive: BTreeMap<String, u64>,
    pub tallies: BTreeMap<String, u64>,
    pub sets: BTreeMap<String, BTreeSet<String>>,
    pub notes: Vec<String>,
    pub exhaustive: bool,
    pub engine: String,
    pub extra: BTreeMap<String, Value>,
}

pub fn hash64<T: Hash>(t: &T) -> u64 {
    // FNV-1a based, stable across runs/processes (DefaultHasher is randomly keyed per build only,
    // but keep our own to be safe).
    struct Fnv(u64);
    impl Hasher for Fnv {
        fn finish(&self) -> u64 {
            self.0
        }
        fn write(&mut self, bytes: &[u8]) {
            for b in bytes {
                self.0 ^= *b as u64;
                self.0 = self.0.wrapping_mul(0x100000001b3);
            }
        }
    }
    let mut h = Fnv(0xcbf29ce484222325);
    t.hash(&mut h);
    h.finish()
}

impl Ctx {
    pub fn new(prop: &str, tier: Tier, seed: u64, shard: u64, nshards: u64) -> Self {
        Ctx {
            prop: prop.to_string(),
            tier,
            seed,
            shard,
            nshards,
            only: None,
            skip: HashSet::new(),
            case_counter: 0,
            evals: 0,
            distinct: HashSet::new(),
            samples: vec![],
            violations: vec![],
            nviol: 0,
            viol_by_sig: BTreeMap::new(),
            inconclusive: BTreeMap::new(),
            tallies: BTreeMap::new(),
            sets: BTreeMap::new(),
            notes: vec![],
            exhaustive: false,
            engine: "chk".into(),
            extra: BTreeMap::new(),
        }
    }

    pub fn quick(&self) -> bool {
        self.tier == Tier::Quick
    }

    /// Pick quick or thorough value
    pub fn qt<T>(&self, q: T, t: T) -> T {
        if self.quick() {
            q
        } else {
            t
        }
    }

    /// Announces the next case; returns true if this shard has to run it.
    /// Every shard walks the same deterministic case sequence.
    pub fn mine(&mut self) -> bool {
        let id = self.case_counter;
        self.case_counter += 1;
        let m = match self.only {
            Some(o) => o == id,
            None => id % self.nshards == self.shard && !self.skip.contains(&id),
        };
        if m {
            set_current_case(id);
        }
        m
    }

    /// id of the case most recently announced by `mine`
    pub fn case_id(&self) -> u64 {
        self.case_counter.wrapping_sub(1)
    }

    /// Deterministic RNG for (seed, property, tag, index)
    pub fn rng(&self, tag: &str, idx: u64) -> ChaCha8Rng {
        let k = hash64(&(self.seed, &self.prop, tag, idx));
        ChaCha8Rng::seed_from_u64(k)
    }

    /// RNG that does not depend on VERIF_SEED (used for expensive cached artefacts)
    pub fn fixed_rng(tag: &str, idx: u64) -> ChaCha8Rng {
        ChaCha8Rng::seed_from_u64(hash64(&("fixed", tag, idx)))
    }

    pub fn eval(&mut self) {
        self.evals += 1;
    }
    pub fn evals_add(&mut self, n: u64) {
        self.evals += n;
    }

    /// Record a distinct non-trivial coverage key
    pub fn cover<T: Hash>(&mut self, key: &T) {
        self.distinct.insert(hash64(key));
    }

    pub fn tally(&mut self, k: &str, n: u64) {
        *self.tallies.entry(k.to_string()).or_insert(0) += n;
    }

    pub fn seen(&mut self, set: &str, item: impl Into<String>) {
        self.sets.entry(set.to_string()).or_default().insert(item.into());
    }

    pub fn sample(&mut self, v: Value) {
        if self.samples.len() < 4 {
            self.samples.push(v);
        }
    }

    pub fn note(&mut self, s: impl Into<String>) {
        let s = s.into();
        if self.notes.len() < 50 && !self.notes.contains(&s) {
            self.notes.push(s);
        }
    }

    pub fn inconclusive(&mut self, reason: impl Into<String>) {
        *self.inconclusive.entry(reason.into()).or_insert(0) += 1;
    }

    pub fn violation(&mut self, sig: impl Into<String>, detail: impl Into<String>, replay: Value) {
        let sig = sig.into();
        self.nviol += 1;
        let n = self.viol_by_sig.entry(sig.clone()).or_insert(0);
        *n += 1;
        // keep first 3 witnesses per signature, at most 60 in total
        if *n <= 3 && self.violations.len() < 60 {
            self.violations.push(Violation {
                sig,
                detail: detail.into(),
                replay,
                case: self.case_id(),
            });
        }
    }

    /// Runs `f` under panic capture; a panic is reported as a violation of this property
    /// with signature `<sigprefix>/panic/<location>`. Returns None on panic.
    pub fn guarded<T>(
        &mut self,
        sigprefix: &str,
        replay: impl FnOnce() -> Value,
        f: impl FnOnce() -> T,
    ) -> Option<T> {
        match guard(f) {
            Ok(v) => Some(v),
            Err(p) => {
                let sig = format!("{}/panic/{}", sigprefix, p.short_loc());
                self.violation(sig, format!("panic: {} at {}", p.msg, p.loc), replay());
                None
            }
        }
    }

    pub fn to_json(&self) -> Value {
        let mut d: Vec<u64> = self.distinct.iter().copied().collect();
        d.sort_unstable();
        json!({
            "prop": self.prop,
            "shard": self.shard,
            "nshards": self.nshards,
            "cases_total": self.case_counter,
            "evals": self.evals,
            "distinct": d,
            "samples": self.samples,
            "nviol": self.nviol,
            "viol_by_sig": self.viol_by_sig,
            "violations": self.violations.iter().map(|v| json!({
                "sig": v.sig, "detail": v.detail, "replay": v.replay, "case": v.case,
            })).collect::<Vec<_>>(),
            "inconclusive": self.inconclusive,
            "tallies": self.tallies,
            "sets": self.sets,
            "notes": self.notes,
            "exhaustive": self.exhaustive,
            "engine": self.engine,
            "extra": self.extra,
        })
    }
}

// ------------------------------------------------------------------------------------------
// panic capture

pub struct Panicked {
    pub msg: String,
    pub loc: String,
}

impl Panicked {
    /// file:line with the path reduced to what follows `/repo/` or the crate dir, so that the
    /// signature is stable.
    pub fn short_loc(&self) -> String {
        let l = &self.loc;
        // strip column
        let mut parts: Vec<&str> = l.rsplitn(2, ':').collect();
        parts.reverse();
        let fl = parts[0];
        if let Some(i) = fl.find("/repo/") {
            return fl[i + 6..].to_string();
        }
        if let Some(i) = fl.find("registry/src/") {
            let rest = &fl[i + 13..];
            if let Some(j) = rest.find('/') {
                return rest[j + 1..].to_string();
            }
        }
        fl.to_string()
    }
    pub fn in_harness(&self) -> bool {
        self.loc.contains("/verif/mon/") || self.loc.starts_with("src/")
    }
}

thread_local! {
    static LAST_PANIC: RefCell<Option<(String, String)>> = const { RefCell::new(None) };
}

pub fn install_panic_hook() {
    std::panic::set_hook(Box::new(|info| {
        let msg = if let Some(s) = info.payload().downcast_ref::<&str>() {
            s.to_string()
        } else if let Some(s) = info.payload().downcast_ref::<String>() {
            s.clone()
        } else {
            "<non-string panic>".to_string()
        };
        let loc = info
            .location()
            .map(|l| format!("{}:{}:{}", l.file(), l.line(), l.column()))
            .unwrap_or_else(|| "<unknown>".into());
        LAST_PANIC.with(|p| *p.borrow_mut() = Some((msg, loc)));
    }));
}

pub fn guard<T>(f: impl FnOnce() -> T) -> Result<T, Panicked> {
    LAST_PANIC.with(|p| *p.borrow_mut() = None);
    match catch_unwind(AssertUnwindSafe(f)) {
        Ok(v) => Ok(v),
        Err(_) => {
            let (msg, loc) = LAST_PANIC
                .with(|p| p.borrow_mut().take())
                .unwrap_or_else(|| ("<unknown>".into(), "<unknown>".into()));
            Err(Panicked { msg, loc })
        }
    }
}

// ------------------------------------------------------------------------------------------
// current-case tracking, watchdog and crash handler

static CUR_CASE: AtomicU64 = AtomicU64::new(u64::MAX);
static CUR_START_MS: AtomicU64 = AtomicU64::new(0);
static CASE_BUDGET_MS: AtomicU64 = AtomicU64::new(60_000);
static WATCHDOG_ON: AtomicBool = AtomicBool::new(false);
static DESC_LEN: AtomicUsize = AtomicUsize::new(0);
static mut DESC: [u8; 512] = [0u8; 512];

#[cfg(miri)]
fn now_ms() -> u64 {
    use std::sync::OnceLock;
    static T0: OnceLock<std::time::Instant> = OnceLock::new();
    T0.get_or_init(std::time::Instant::now).elapsed().as_millis() as u64
}

#[cfg(not(miri))]
fn now_ms() -> u64 {
    let mut ts = libc::timespec {
        tv_sec: 0,
        tv_nsec: 0,
    };
    unsafe { libc::clock_gettime(libc::CLOCK_MONOTONIC, &mut ts) };
    ts.tv_sec as u64 * 1000 + ts.tv_nsec as u64 / 1_000_000
}

#[cfg(miri)]
pub fn thread_cpu_s() -> f64 {
    now_ms() as f64 / 1000.0
}

#[cfg(not(miri))]
pub fn thread_cpu_s() -> f64 {
    let mut ts = libc::timespec {
        tv_sec: 0,
        tv_nsec: 0,
    };
    unsafe { libc::clock_gettime(libc::CLOCK_THREAD_CPUTIME_ID, &mut ts) };
    ts.tv_sec as f64 + ts.tv_nsec as f64 / 1e9
}

pub fn set_current_case(id: u64) {
    CUR_CASE.store(id, Ordering::SeqCst);
    CUR_START_MS.store(now_ms(), Ordering::SeqCst);
    DESC_LEN.store(0, Ordering::SeqCst);
}

/// Optional free-text description of what the current case does (shown on crash / timeout).
#[allow(static_mut_refs)]
pub fn describe_case(s: &str) {
    let b = s.as_bytes();
    let n = b.len().min(512);
    unsafe {
        DESC[..n].copy_from_slice(&b[..n]);
    }
    DESC_LEN.store(n, Ordering::SeqCst);
    CUR_START_MS.store(now_ms(), Ordering::SeqCst);
}

pub fn set_case_budget_ms(ms: u64) {
    CASE_BUDGET_MS.store(ms, Ordering::SeqCst);
}

#[allow(static_mut_refs)]
fn write_marker(kind: &[u8]) {
    // async-signal-safe: only write(2) on fd 1
    let mut buf = [0u8; 700];
    let mut n = 0;
    for b in kind {
        buf[n] = *b;
        n += 1;
    }
    for b in b" case=" {
        buf[n] = *b;
        n += 1;
    }
    let mut id = CUR_CASE.load(Ordering::SeqCst);
    let mut digits = [0u8; 20];
    let mut nd = 0;
    if id == 0 {
        digits[0] = b'0';
        nd = 1;
    }
    while id > 0 && nd < 20 {
        digits[nd] = b'0' + (id % 10) as u8;
        id /= 10;
        nd += 1;
    }
    for i in (0..nd).rev() {
        buf[n] = digits[i];
        n += 1;
    }
    for b in b" desc=" {
        buf[n] = *b;
        n += 1;
    }
    let dl = DESC_LEN.load(Ordering::SeqCst).min(512);
    unsafe {
        for i in 0..dl {
            let c = DESC[i];
            buf[n] = if c == b'\n' { b' ' } else { c };
            n += 1;
        }
    }
    buf[n] = b'\n';
    n += 1;
    unsafe {
        libc::write(1, buf.as_ptr() as *const libc::c_void, n);
    }
}

extern "C" fn crash_handler(sig: libc::c_int) {
    let kind: &[u8] = match sig {
        libc::SIGSEGV => b"\nMON-CRASH signal=SEGV",
        libc::SIGABRT => b"\nMON-CRASH signal=ABRT",
        libc::SIGBUS => b"\nMON-CRASH signal=BUS",
        libc::SIGILL => b"\nMON-CRASH signal=ILL",
        _ => b"\nMON-CRASH signal=OTHER",
    };
    write_marker(kind);
    unsafe { libc::_exit(98) };
}

#[cfg(miri)]
pub fn install_crash_handler() {}

#[cfg(not(miri))]
pub fn install_crash_handler() {
    unsafe {
        // alternate stack so that stack overflows can be reported
        let sz = 1 << 16;
        let stack = libc::mmap(
            std::ptr::null_mut(),
            sz,
            libc::PROT_READ | libc::PROT_WRITE,
            libc::MAP_PRIVATE | libc::MAP_ANONYMOUS,
            -1,
            0,
        );
        let ss = libc::stack_t {
            ss_sp: stack,
            ss_flags: 0,
            ss_size: sz,
        };
        libc::sigaltstack(&ss, std::ptr::null_mut());
        for sig in [libc::SIGSEGV, libc::SIGABRT, libc::SIGBUS, libc::SIGILL] {
            let mut sa: libc::sigaction = std::mem::zeroed();
            sa.sa_sigaction = crash_handler as usize;
            sa.sa_flags = libc::SA_ONSTACK;
            libc::sigaction(sig, &sa, std::ptr::null_mut());
        }
    }
}

/// Starts the per-case wall-clock watchdog. When a case exceeds the budget the process prints
/// `MON-TIMEOUT case=<id>` and exits with status 97; the driver re-runs that case in isolation.
pub fn start_watchdog() {
    if cfg!(miri) {
        return;
    }
    if WATCHDOG_ON.swap(true, Ordering::SeqCst) {
        return;
    }
    std::thread::spawn(|| loop {
        std::thread::sleep(std::time::Duration::from_millis(200));
        let id = CUR_CASE.load(Ordering::SeqCst);
        if id == u64::MAX {
            continue;
        }
        let st = CUR_START_MS.load(Ordering::SeqCst);
        let budget = CASE_BUDGET_MS.load(Ordering::SeqCst);
        if now_ms().saturating_sub(st) > budget {
            write_marker(b"\nMON-TIMEOUT");
            unsafe { libc::_exit(97) };
        }
    });
}

pub fn hexs(b: &[u8]) -> String {
    if b.len() <= 4096 {
        hex::encode(b)
    } else {
        format!("{}...(+{} bytes)", hex::encode(&b[..4096]), b.len() - 4096)
    }
}
