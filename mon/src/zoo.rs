//! Key zoo: keys of every algorithm/version generated with the library's key builder from
//! fixed seeds. Slow ones (RSA, DSA) are cached on disk under /verif/target/keys.

use pgp::composed::{
    ArmorOptions, Deserializable, EncryptionCaps, KeyType, SecretKeyParamsBuilder, SignedPublicKey,
    SignedSecretKey, SubkeyParamsBuilder,
};
use pgp::crypto::ecc_curve::ECCCurve;
use pgp::types::{KeyVersion, Timestamp};
use rand::SeedableRng;
use rand_chacha::ChaCha8Rng;

use crate::core::hash64;

#[derive(Clone, Debug, PartialEq, Eq, Hash)]
pub enum Alg {
    Rsa2048,
    Dsa2048,
    Ed25519Legacy,
    Ed25519,
    Ed448,
    EcdsaP256,
    EcdsaP384,
    EcdsaP521,
    EcdsaK256,
    // encryption
    EcdhCv25519,
    EcdhP256,
    EcdhP384,
    EcdhP521,
    X25519,
    X448,
}

impl Alg {
    pub fn key_type(&self) -> KeyType {
        match self {
            Alg::Rsa2048 => KeyType::Rsa(2048),
            Alg::Dsa2048 => KeyType::Dsa(pgp::composed::DsaKeySize::B2048),
            Alg::Ed25519Legacy => KeyType::Ed25519Legacy,
            Alg::Ed25519 => KeyType::Ed25519,
            Alg::Ed448 => KeyType::Ed448,
            Alg::EcdsaP256 => KeyType::ECDSA(ECCCurve::P256),
            Alg::EcdsaP384 => KeyType::ECDSA(ECCCurve::P384),
            Alg::EcdsaP521 => KeyType::ECDSA(ECCCurve::P521),
            Alg::EcdsaK256 => KeyType::ECDSA(ECCCurve::Secp256k1),
            Alg::EcdhCv25519 => KeyType::ECDH(ECCCurve::Curve25519Legacy),
            Alg::EcdhP256 => KeyType::ECDH(ECCCurve::P256),
            Alg::EcdhP384 => KeyType::ECDH(ECCCurve::P384),
            Alg::EcdhP521 => KeyType::ECDH(ECCCurve::P521),
            Alg::X25519 => KeyType::X25519,
            Alg::X448 => KeyType::X448,
        }
    }
    pub fn is_slow(&self) -> bool {
        matches!(self, Alg::Rsa2048 | Alg::Dsa2048)
    }
    pub fn v4_only(&self) -> bool {
        matches!(self, Alg::Ed25519Legacy | Alg::EcdhCv25519 | Alg::Dsa2048)
    }
    pub fn can_encrypt(&self) -> bool {
        matches!(
            self,
            Alg::Rsa2048
                | Alg::EcdhCv25519
                | Alg::EcdhP256
                | Alg::EcdhP384
                | Alg::EcdhP521
                | Alg::X25519
                | Alg::X448
        )
    }
    pub fn can_sign(&self) -> bool {
        !matches!(
            self,
            Alg::EcdhCv25519 | Alg::EcdhP256 | Alg::EcdhP384 | Alg::EcdhP521 | Alg::X25519 | Alg::X448
        )
    }
    pub fn signers() -> Vec<Alg> {
        vec![
            Alg::Ed25519Legacy,
            Alg::Ed25519,
            Alg::Ed448,
            Alg::EcdsaP256,
            Alg::EcdsaP384,
            Alg::EcdsaP521,
            Alg::EcdsaK256,
            Alg::Rsa2048,
            Alg::Dsa2048,
        ]
    }
    pub fn encryptors() -> Vec<Alg> {
        vec![
            Alg::EcdhCv25519,
            Alg::EcdhP256,
            Alg::EcdhP384,
            Alg::EcdhP521,
            Alg::X25519,
            Alg::X448,
            Alg::Rsa2048,
        ]
    }
}

#[derive(Clone, Debug)]
pub struct Spec {
    pub v6: bool,
    pub primary: Alg,
    /// encryption subkey
    pub enc_sub: Option<Alg>,
    /// signing subkey
    pub sign_sub: Option<Alg>,
    pub uids: usize,
    pub passphrase: Option<String>,
    pub created: u32,
}

impl Spec {
    pub fn simple(v6: bool, primary: Alg, enc_sub: Option<Alg>) -> Self {
        Spec {
            v6,
            primary,
            enc_sub,
            sign_sub: None,
            uids: 1,
            passphrase: None,
            created: 1_700_000_000,
        }
    }
    pub fn name(&self) -> String {
        format!(
            "{}-{:?}-{:?}-{:?}-u{}-{}",
            if self.v6 { "v6" } else { "v4" },
            self.primary,
            self.enc_sub,
            self.sign_sub,
            self.uids,
            if self.passphrase.is_some() { "locked" } else { "plain" }
        )
    }
}

pub fn generate(spec: &Spec, rng: &mut ChaCha8Rng) -> pgp::errors::Result<SignedSecretKey> {
    let ver = if spec.v6 { KeyVersion::V6 } else { KeyVersion::V4 };
    let created = Timestamp::from_secs(spec.created);
    let mut b = SecretKeyParamsBuilder::default();
    b.version(ver)
        .key_type(spec.primary.key_type())
        .can_certify(true)
        .can_sign(spec.primary.can_sign())
        .created_at(created)
        .feature_seipd_v2(spec.v6);
    if spec.primary == Alg::Rsa2048 && spec.enc_sub.is_none() {
        b.can_encrypt(EncryptionCaps::All);
    }
    if spec.uids > 0 {
        b.primary_user_id("Primary <primary@example.org>".into());
        for i in 1..spec.uids {
            b.user_id(format!("Other {i} <o{i}@example.org>"));
        }
    }
    if let Some(pw) = &spec.passphrase {
        b.passphrase(Some(pw.clone()));
    }
    if let Some(e) = &spec.enc_sub {
        let mut sb = SubkeyParamsBuilder::default();
        sb.version(ver)
            .key_type(e.key_type())
            .can_encrypt(EncryptionCaps::All)
            .created_at(created);
        if let Some(pw) = &spec.passphrase {
            sb.passphrase(Some(pw.clone()));
        }
        b.subkey(sb.build().map_err(|e| pgp::errors::Error::from(format!("{e}")))?);
    }
    if let Some(s) = &spec.sign_sub {
        let mut sb = SubkeyParamsBuilder::default();
        sb.version(ver)
            .key_type(s.key_type())
            .can_sign(true)
            .created_at(created);
        if let Some(pw) = &spec.passphrase {
            sb.passphrase(Some(pw.clone()));
        }
        b.subkey(sb.build().map_err(|e| pgp::errors::Error::from(format!("{e}")))?);
    }
    let params = b
        .build()
        .map_err(|e| pgp::errors::Error::from(format!("{e}")))?;
    params.generate(rng)
}

/// Key from the zoo by (spec, index); slow algorithms come from the on-disk cache.
pub fn key(spec: &Spec, idx: u64) -> SignedSecretKey {
    let slow = spec.primary.is_slow()
        || spec.enc_sub.as_ref().is_some_and(|a| a.is_slow())
        || spec.sign_sub.as_ref().is_some_and(|a| a.is_slow());
    let name = format!("{}-{}", spec.name(), idx);
    let mut rng = ChaCha8Rng::seed_from_u64(hash64(&("zoo", &name)));
    if !slow {
        return generate(spec, &mut rng).unwrap_or_else(|e| panic!("zoo generate {name}: {e}"));
    }
    let dir = std::path::Path::new("/verif/target/keys");
    let _ = std::fs::create_dir_all(dir);
    let path = dir.join(format!("{name}.asc"));
    if let Ok(s) = std::fs::read_to_string(&path) {
        if let Ok((k, _)) = SignedSecretKey::from_string(&s) {
            return k;
        }
    }
    let k = generate(spec, &mut rng).unwrap_or_else(|e| panic!("zoo generate {name}: {e}"));
    if let Ok(s) = k.to_armored_string(ArmorOptions::default()) {
        let tmp = dir.join(format!("{name}.asc.tmp{}", std::process::id()));
        if std::fs::write(&tmp, s).is_ok() {
            let _ = std::fs::rename(&tmp, &path);
        }
    }
    k
}

pub fn public(k: &SignedSecretKey) -> SignedPublicKey {
    k.to_public_key()
}

/// A default small set of signer keys: (name, key)
pub fn signer_specs(include_slow: bool) -> Vec<Spec> {
    let mut v = vec![];
    for a in Alg::signers() {
        if a.is_slow() && !include_slow {
            continue;
        }
        v.push(Spec::simple(false, a.clone(), None));
        if !a.v4_only() {
            v.push(Spec::simple(true, a.clone(), None));
        }
    }
    v
}

/// Specs with an encryption subkey of every kind (primary Ed25519 / Ed25519Legacy)
pub fn encryptor_specs(include_slow: bool) -> Vec<Spec> {
    let mut v = vec![];
    for a in Alg::encryptors() {
        if a.is_slow() && !include_slow {
            continue;
        }
        if a == Alg::Rsa2048 {
            v.push(Spec::simple(false, Alg::Rsa2048, Some(Alg::Rsa2048)));
            v.push(Spec::simple(true, Alg::Rsa2048, Some(Alg::Rsa2048)));
            continue;
        }
        v.push(Spec::simple(false, Alg::Ed25519Legacy, Some(a.clone())));
        if !a.v4_only() {
            v.push(Spec::simple(true, Alg::Ed25519, Some(a.clone())));
        }
    }
    v
}

/// Generates (and caches) the slow keys of the zoo.
pub fn warm() {
    for v6 in [false, true] {
        let _ = key(&Spec::simple(v6, Alg::Rsa2048, Some(Alg::Rsa2048)), 0);
        let _ = key(&Spec::simple(v6, Alg::Rsa2048, None), 0);
    }
    let _ = key(&Spec::simple(false, Alg::Dsa2048, None), 0);
}
