//! Reference packet framing (RFC 9580 section 4.2): headers, length forms, partial bodies.

/// How the length of a packet is to be encoded by the reference framer.
#[derive(Clone, Debug, PartialEq, Eq, Hash)]
pub enum LenForm {
    /// new format, minimal
    NewMin,
    /// new format, forced 1/2/5-octet (caller guarantees representability)
    New1,
    New2,
    New5,
    /// old format 1/2/4 octet length
    Old1,
    Old2,
    Old4,
    /// old format, indeterminate length (body extends to end of input)
    OldIndeterminate,
    /// new format partial body chunks of these sizes (each a power of two) followed by final
    /// chunk encoded with the given form for the rest
    Partial(Vec<u32>, Box<LenForm>),
}

pub fn new_len(len: u32, form: &LenForm) -> Vec<u8> {
    match form {
        LenForm::New1 => {
            assert!(len < 192);
            vec![len as u8]
        }
        LenForm::New2 => {
            assert!((192..8384).contains(&len));
            let v = len - 192;
            vec![(v >> 8) as u8 + 192, v as u8]
        }
        LenForm::New5 => {
            let mut o = vec![255u8];
            o.extend_from_slice(&len.to_be_bytes());
            o
        }
        _ => {
            if len < 192 {
                new_len(len, &LenForm::New1)
            } else if len < 8384 {
                new_len(len, &LenForm::New2)
            } else {
                new_len(len, &LenForm::New5)
            }
        }
    }
}

pub fn partial_len_octet(size: u32) -> u8 {
    assert!(size.is_power_of_two());
    224 + size.trailing_zeros() as u8
}

/// Frame `body` under `tag` with the given form. Returns None if the form cannot carry it
/// (e.g. Old1 with len > 255, old format with tag > 15, chunk sizes exceeding the body).
pub fn frame(tag: u8, body: &[u8], form: &LenForm) -> Option<Vec<u8>> {
    let len = body.len();
    let mut out = vec![];
    match form {
        LenForm::NewMin | LenForm::New1 | LenForm::New2 | LenForm::New5 => {
            if tag > 63 {
                return None;
            }
            match form {
                LenForm::New1 if len >= 192 => return None,
                LenForm::New2 if !(192..8384).contains(&len) => return None,
                _ => {}
            }
            out.push(0xC0 | tag);
            out.extend(new_len(len as u32, form));
            out.extend_from_slice(body);
        }
        LenForm::Old1 | LenForm::Old2 | LenForm::Old4 | LenForm::OldIndeterminate => {
            if tag > 15 {
                return None;
            }
            let (lt, lenb): (u8, Vec<u8>) = match form {
                LenForm::Old1 => {
                    if len > 255 {
                        return None;
                    }
                    (0, vec![len as u8])
                }
                LenForm::Old2 => {
                    if len > 65535 {
                        return None;
                    }
                    (1, (len as u16).to_be_bytes().to_vec())
                }
                LenForm::Old4 => (2, (len as u32).to_be_bytes().to_vec()),
                _ => (3, vec![]),
            };
            out.push(0x80 | tag << 2 | lt);
            out.extend(lenb);
            out.extend_from_slice(body);
        }
        LenForm::Partial(chunks, last) => {
            if tag > 63 {
                return None;
            }
            out.push(0xC0 | tag);
            let mut pos = 0usize;
            for c in chunks {
                let c = *c as usize;
                if pos + c > len {
                    return None;
                }
                out.push(partial_len_octet(c as u32));
                out.extend_from_slice(&body[pos..pos + c]);
                pos += c;
            }
            let rest = &body[pos..];
            match **last {
                LenForm::New1 if rest.len() >= 192 => return None,
                LenForm::New2 if !(192..8384).contains(&rest.len()) => return None,
                LenForm::NewMin | LenForm::New1 | LenForm::New2 | LenForm::New5 => {}
                _ => return None,
            }
            out.extend(new_len(rest.len() as u32, last));
            out.extend_from_slice(rest);
        }
    }
    Some(out)
}

#[derive(Debug, Clone, PartialEq, Eq)]
pub struct RawPacket {
    pub tag: u8,
    pub new_format: bool,
    /// sizes of partial chunks seen (empty when not partial)
    pub partial_chunks: Vec<u32>,
    pub indeterminate: bool,
    pub body: Vec<u8>,
    /// offset of the packet in the stream and total encoded length
    pub offset: usize,
    pub encoded_len: usize,
}

pub fn is_data_tag(tag: u8) -> bool {
    matches!(tag, 8 | 9 | 11 | 18 | 20)
}

/// Reference deframer with legality checks. Errors on any violation of 4.2:
/// truncated bodies, partial lengths on non-data packets, first partial chunk < 512, ...
pub fn deframe(mut data: &[u8]) -> Result<Vec<RawPacket>, String> {
    let mut out = vec![];
    let mut offset = 0usize;
    while !data.is_empty() {
        let start_len = data.len();
        let h = data[0];
        if h & 0x80 == 0 {
            return Err(format!("offset {offset}: header bit 7 clear ({h:#x})"));
        }
        let mut p = 1usize;
        let mut body = vec![];
        let mut partial_chunks = vec![];
        let mut indeterminate = false;
        let new_format = h & 0x40 != 0;
        let tag;
        if new_format {
            tag = h & 0x3F;
            loop {
                if p >= data.len() {
                    return Err(format!("offset {offset}: truncated length"));
                }
                let o = data[p];
                let (len, is_partial) = if o < 192 {
                    p += 1;
                    (o as usize, false)
                } else if o < 224 {
                    if p + 2 > data.len() {
                        return Err("truncated 2-octet length".into());
                    }
                    let l = ((o as usize - 192) << 8) + data[p + 1] as usize + 192;
                    p += 2;
                    (l, false)
                } else if o == 255 {
                    if p + 5 > data.len() {
                        return Err("truncated 5-octet length".into());
                    }
                    let l = u32::from_be_bytes([data[p + 1], data[p + 2], data[p + 3], data[p + 4]])
                        as usize;
                    p += 5;
                    (l, false)
                } else {
                    p += 1;
                    (1usize << (o & 0x1F), true)
                };
                if is_partial {
                    if !is_data_tag(tag) {
                        return Err(format!("partial length on non-data tag {tag}"));
                    }
                    if partial_chunks.is_empty() && len < 512 {
                        return Err(format!("first partial chunk {len} < 512"));
                    }
                    partial_chunks.push(len as u32);
                }
                if p + len > data.len() {
                    return Err(format!(
                        "offset {offset}: declared {len} but only {} available",
                        data.len() - p
                    ));
                }
                body.extend_from_slice(&data[p..p + len]);
                p += len;
                if !is_partial {
                    break;
                }
            }
        } else {
            tag = (h >> 2) & 0x0F;
            let lt = h & 3;
            let len = match lt {
                0 => {
                    if p + 1 > data.len() {
                        return Err("truncated old len".into());
                    }
                    let l = data[p] as usize;
                    p += 1;
                    l
                }
                1 => {
                    if p + 2 > data.len() {
                        return Err("truncated old len".into());
                    }
                    let l = u16::from_be_bytes([data[p], data[p + 1]]) as usize;
                    p += 2;
                    l
                }
                2 => {
                    if p + 4 > data.len() {
                        return Err("truncated old len".into());
                    }
                    let l =
                        u32::from_be_bytes([data[p], data[p + 1], data[p + 2], data[p + 3]]) as usize;
                    p += 4;
                    l
                }
                _ => {
                    indeterminate = true;
                    data.len() - p
                }
            };
            if p + len > data.len() {
                return Err(format!("offset {offset}: old declared {len} > available"));
            }
            body.extend_from_slice(&data[p..p + len]);
            p += len;
        }
        out.push(RawPacket {
            tag,
            new_format,
            partial_chunks,
            indeterminate,
            body,
            offset,
            encoded_len: p,
        });
        data = &data[p..];
        offset += start_len - data.len();
    }
    Ok(out)
}

/// Checks of a library-*written* stream (C17 writer side): new format only, partial only on data
/// packets, all partial chunks equal powers of two ≥ 512, exactly one final non-partial chunk.
pub fn check_written(pkts: &[RawPacket]) -> Result<(), String> {
    for p in pkts {
        if !p.new_format {
            return Err(format!("packet tag {} written in old format", p.tag));
        }
        if p.indeterminate {
            return Err("indeterminate length written".into());
        }
        if !p.partial_chunks.is_empty() {
            if !is_data_tag(p.tag) {
                return Err(format!("partial on tag {}", p.tag));
            }
            if p.partial_chunks[0] < 512 {
                return Err("first chunk < 512".into());
            }
            for c in &p.partial_chunks {
                if !c.is_power_of_two() {
                    return Err("non power of two".into());
                }
            }
        }
    }
    Ok(())
}
