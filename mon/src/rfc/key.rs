//! Reference: key packets, fingerprints, key ids, secret key protection, ECDH.
