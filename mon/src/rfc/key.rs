//! Reference: key packets (public and secret), fingerprints, key ids, secret key protection,
//! ECDH / X25519 / X448 session key wrapping. Only primitive crates are used.

use super::sym::{
    aead_nonce_len, aead_open, aead_seal, aes_kw_unwrap, aes_kw_wrap, block_size, cfb_decrypt,
    cfb_encrypt, hkdf_sha256, key_size, RefS2k,
};
use super::{be32, hash, mpi, read_mpi, sum16};

#[derive(Debug, Clone, PartialEq, Eq)]
pub struct RefPub {
    pub version: u8,
    pub created: u32,
    pub v3_expiry_days: u16,
    pub alg: u8,
    /// algorithm specific material exactly as on the wire
    pub material: Vec<u8>,
}

/// Number of octets of the public material of `alg` at the start of `b` (None if unknown alg
/// or truncated).
pub fn pub_material_len(alg: u8, b: &[u8]) -> Option<usize> {
    let mpis = |n: usize, mut p: usize| -> Option<usize> {
        for _ in 0..n {
            p = read_mpi(b, p)?.1;
        }
        Some(p)
    };
    let oid = |p: usize| -> Option<usize> {
        let l = *b.get(p)? as usize;
        if l == 0 || l == 0xFF || p + 1 + l > b.len() {
            return None;
        }
        Some(p + 1 + l)
    };
    match alg {
        1 | 2 | 3 => mpis(2, 0),
        16 => mpis(3, 0),
        17 => mpis(4, 0),
        18 => {
            let p = mpis(1, oid(0)?)?;
            let kl = *b.get(p)? as usize;
            if p + 1 + kl > b.len() {
                return None;
            }
            Some(p + 1 + kl)
        }
        19 | 22 => mpis(1, oid(0)?),
        25 | 27 => (b.len() >= 32).then_some(32),
        26 => (b.len() >= 56).then_some(56),
        28 => (b.len() >= 57).then_some(57),
        _ => None,
    }
}

impl RefPub {
    pub fn encode(&self) -> Vec<u8> {
        let mut o = vec![self.version];
        o.extend(be32(self.created));
        if self.version <= 3 {
            o.extend(self.v3_expiry_days.to_be_bytes());
        }
        o.push(self.alg);
        if self.version == 6 {
            o.extend(be32(self.material.len() as u32));
        }
        o.extend(&self.material);
        o
    }

    /// Parses a public key body; returns the key and the number of octets consumed (the body of
    /// a secret key packet continues after that).
    pub fn parse_prefix(b: &[u8]) -> Option<(RefPub, usize)> {
        let version = *b.first()?;
        let created = u32::from_be_bytes(b.get(1..5)?.try_into().ok()?);
        let mut p = 5;
        let mut v3_expiry_days = 0;
        if version == 2 || version == 3 {
            v3_expiry_days = u16::from_be_bytes(b.get(5..7)?.try_into().ok()?);
            p = 7;
        } else if version != 4 && version != 6 {
            return None;
        }
        let alg = *b.get(p)?;
        p += 1;
        let mlen = if version == 6 {
            let l = u32::from_be_bytes(b.get(p..p + 4)?.try_into().ok()?) as usize;
            p += 4;
            if p + l > b.len() {
                return None;
            }
            l
        } else {
            pub_material_len(alg, &b[p..])?
        };
        let material = b.get(p..p + mlen)?.to_vec();
        Some((
            RefPub {
                version,
                created,
                v3_expiry_days,
                alg,
                material,
            },
            p + mlen,
        ))
    }

    pub fn fingerprint(&self) -> Vec<u8> {
        let body = self.encode();
        match self.version {
            2 | 3 => {
                // MD5 over the bodies of the MPIs n and e (without length prefixes)
                let (n, p) = read_mpi(&self.material, 0).unwrap_or((&[], 0));
                let (e, _) = read_mpi(&self.material, p).unwrap_or((&[], 0));
                hash(1, &[n, e]).unwrap()
            }
            6 => hash(8, &[&[0x9B], &be32(body.len() as u32), &body]).unwrap(),
            _ => hash(2, &[&[0x99], &(body.len() as u16).to_be_bytes(), &body]).unwrap(),
        }
    }

    pub fn key_id(&self) -> [u8; 8] {
        let mut id = [0u8; 8];
        match self.version {
            2 | 3 => {
                let (n, _) = read_mpi(&self.material, 0).unwrap_or((&[], 0));
                if n.len() >= 8 {
                    id.copy_from_slice(&n[n.len() - 8..]);
                }
            }
            6 => id.copy_from_slice(&self.fingerprint()[..8]),
            _ => {
                let f = self.fingerprint();
                id.copy_from_slice(&f[f.len() - 8..]);
            }
        }
        id
    }
}

// ---------------------------------------------------------------------------------------
// Secret key packets

#[derive(Debug, Clone, PartialEq, Eq)]
pub enum RefProtection {
    /// usage 0
    None,
    /// usage = cipher id (legacy): key = MD5(password) ... (simple S2K with MD5), sum16 check
    LegacyCipher { cipher: u8, iv: Vec<u8> },
    /// usage 255: CFB + sum16
    MalleableCfb { cipher: u8, s2k: RefS2k, iv: Vec<u8> },
    /// usage 254: CFB + SHA-1
    Cfb { cipher: u8, s2k: RefS2k, iv: Vec<u8> },
    /// usage 253
    Aead { cipher: u8, aead: u8, s2k: RefS2k, nonce: Vec<u8> },
}

#[derive(Debug, Clone, PartialEq, Eq)]
pub struct RefSecret {
    pub public: RefPub,
    pub protection: RefProtection,
    /// unprotected: secret material followed by its 2-octet checksum for v4 (none for v6);
    /// protected: the ciphertext
    pub data: Vec<u8>,
}

impl RefProtection {
    pub fn usage(&self) -> u8 {
        match self {
            RefProtection::None => 0,
            RefProtection::LegacyCipher { cipher, .. } => *cipher,
            RefProtection::MalleableCfb { .. } => 255,
            RefProtection::Cfb { .. } => 254,
            RefProtection::Aead { .. } => 253,
        }
    }
}

impl RefSecret {
    pub fn encode(&self) -> Vec<u8> {
        let mut o = self.public.encode();
        let v6 = self.public.version == 6;
        o.push(self.protection.usage());
        let mut fields = vec![];
        match &self.protection {
            RefProtection::None => {}
            RefProtection::LegacyCipher { iv, .. } => fields.extend(iv),
            RefProtection::MalleableCfb { cipher, s2k, iv } | RefProtection::Cfb { cipher, s2k, iv } => {
                fields.push(*cipher);
                let s = s2k.encode();
                if v6 {
                    fields.push(s.len() as u8);
                }
                fields.extend(s);
                fields.extend(iv);
            }
            RefProtection::Aead { cipher, aead, s2k, nonce } => {
                fields.push(*cipher);
                fields.push(*aead);
                let s = s2k.encode();
                if v6 {
                    fields.push(s.len() as u8);
                }
                fields.extend(s);
                fields.extend(nonce);
            }
        }
        if v6 && !matches!(self.protection, RefProtection::None) {
            o.push(fields.len() as u8);
        }
        o.extend(fields);
        o.extend(&self.data);
        o
    }

    pub fn parse(b: &[u8]) -> Option<RefSecret> {
        let (public, mut p) = RefPub::parse_prefix(b)?;
        let v6 = public.version == 6;
        let usage = *b.get(p)?;
        p += 1;
        if v6 && usage != 0 {
            // count of following fields
            let _n = *b.get(p)?;
            p += 1;
        }
        let protection = match usage {
            0 => RefProtection::None,
            253 | 254 | 255 => {
                let cipher = *b.get(p)?;
                p += 1;
                let mut aead = 0;
                if usage == 253 {
                    aead = *b.get(p)?;
                    p += 1;
                }
                if v6 {
                    let _sl = *b.get(p)?;
                    p += 1;
                }
                let (s2k, n) = RefS2k::parse(b.get(p..)?)?;
                p += n;
                let ivl = if usage == 253 {
                    aead_nonce_len(aead)?
                } else {
                    block_size(cipher)?
                };
                let iv = b.get(p..p + ivl)?.to_vec();
                p += ivl;
                match usage {
                    253 => RefProtection::Aead { cipher, aead, s2k, nonce: iv },
                    254 => RefProtection::Cfb { cipher, s2k, iv },
                    _ => RefProtection::MalleableCfb { cipher, s2k, iv },
                }
            }
            c => {
                let ivl = block_size(c)?;
                let iv = b.get(p..p + ivl)?.to_vec();
                p += ivl;
                RefProtection::LegacyCipher { cipher: c, iv }
            }
        };
        Some(RefSecret {
            public,
            protection,
            data: b[p..].to_vec(),
        })
    }

    /// Locks raw secret material (algorithm specific wire form, without checksum) — v4/v6 only.
    /// `packet_tag` is 5 (secret key) or 7 (secret subkey); it enters the AEAD construction.
    pub fn lock(
        public: &RefPub,
        packet_tag: u8,
        protection: RefProtection,
        pw: &[u8],
        material: &[u8],
    ) -> Option<RefSecret> {
        let data = match &protection {
            RefProtection::None => {
                let mut d = material.to_vec();
                if public.version != 6 {
                    d.extend(sum16(material).to_be_bytes());
                }
                d
            }
            RefProtection::LegacyCipher { cipher, iv } => {
                let key = RefS2k::Simple { hash: 1 }.derive(pw, key_size(*cipher)?)?;
                let mut d = material.to_vec();
                d.extend(sum16(material).to_be_bytes());
                cfb_encrypt(*cipher, &key, iv, &mut d)?;
                d
            }
            RefProtection::MalleableCfb { cipher, s2k, iv } => {
                let key = s2k.derive(pw, key_size(*cipher)?)?;
                let mut d = material.to_vec();
                d.extend(sum16(material).to_be_bytes());
                cfb_encrypt(*cipher, &key, iv, &mut d)?;
                d
            }
            RefProtection::Cfb { cipher, s2k, iv } => {
                let key = s2k.derive(pw, key_size(*cipher)?)?;
                let mut d = material.to_vec();
                d.extend(hash(2, &[material])?);
                cfb_encrypt(*cipher, &key, iv, &mut d)?;
                d
            }
            RefProtection::Aead { cipher, aead, s2k, nonce } => {
                let (kek, ad) = aead_protection_keys(public, packet_tag, *cipher, *aead, s2k, pw)?;
                aead_seal(*cipher, *aead, &kek, nonce, &ad, material)?
            }
        };
        Some(RefSecret {
            public: public.clone(),
            protection,
            data,
        })
    }

    /// Unlocks: returns the raw secret material (without checksum). Err(()) = wrong password /
    /// integrity failure; None = unsupported parameters.
    pub fn unlock(&self, packet_tag: u8, pw: &[u8]) -> Option<Result<Vec<u8>, ()>> {
        let split_sum = |d: Vec<u8>| -> Result<Vec<u8>, ()> {
            if d.len() < 2 {
                return Err(());
            }
            let (m, c) = d.split_at(d.len() - 2);
            if sum16(m).to_be_bytes() != [c[0], c[1]] {
                return Err(());
            }
            Ok(m.to_vec())
        };
        Some(match &self.protection {
            RefProtection::None => {
                if self.public.version == 6 {
                    Ok(self.data.clone())
                } else {
                    split_sum(self.data.clone())
                }
            }
            RefProtection::LegacyCipher { cipher, iv } => {
                let key = RefS2k::Simple { hash: 1 }.derive(pw, key_size(*cipher)?)?;
                let mut d = self.data.clone();
                cfb_decrypt(*cipher, &key, iv, &mut d)?;
                split_sum(d)
            }
            RefProtection::MalleableCfb { cipher, s2k, iv } => {
                let key = s2k.derive(pw, key_size(*cipher)?)?;
                let mut d = self.data.clone();
                cfb_decrypt(*cipher, &key, iv, &mut d)?;
                split_sum(d)
            }
            RefProtection::Cfb { cipher, s2k, iv } => {
                let key = s2k.derive(pw, key_size(*cipher)?)?;
                let mut d = self.data.clone();
                cfb_decrypt(*cipher, &key, iv, &mut d)?;
                if d.len() < 20 {
                    return Some(Err(()));
                }
                let (m, h) = d.split_at(d.len() - 20);
                if hash(2, &[m])? != h {
                    Err(())
                } else {
                    Ok(m.to_vec())
                }
            }
            RefProtection::Aead { cipher, aead, s2k, nonce } => {
                let (kek, ad) = aead_protection_keys(&self.public, packet_tag, *cipher, *aead, s2k, pw)?;
                aead_open(*cipher, *aead, &kek, nonce, &ad, &self.data)?
            }
        })
    }
}

/// RFC 9580 3.7.2.1 / 5.5.3: KEK = HKDF-SHA256(ikm = S2K output, salt none,
/// info = [packet type octet (0xC5/0xC7), key version, cipher, aead]); AD = same packet type
/// octet followed by the public key packet body.
pub fn aead_protection_keys(
    public: &RefPub,
    packet_tag: u8,
    cipher: u8,
    aead: u8,
    s2k: &RefS2k,
    pw: &[u8],
) -> Option<(Vec<u8>, Vec<u8>)> {
    let ks = key_size(cipher)?;
    let ikm = s2k.derive(pw, ks)?;
    let type_octet = 0xC0 | packet_tag;
    let info = [type_octet, public.version, cipher, aead];
    let kek = hkdf_sha256(None, &ikm, &info, ks);
    let mut ad = vec![type_octet];
    ad.extend(public.encode());
    Some((kek, ad))
}

// ---------------------------------------------------------------------------------------
// ECDH (RFC 9580 11.5, RFC 6637)

pub const OID_P256: &[u8] = &[0x2A, 0x86, 0x48, 0xCE, 0x3D, 0x03, 0x01, 0x07];
pub const OID_P384: &[u8] = &[0x2B, 0x81, 0x04, 0x00, 0x22];
pub const OID_P521: &[u8] = &[0x2B, 0x81, 0x04, 0x00, 0x23];
pub const OID_CV25519: &[u8] = &[0x2B, 0x06, 0x01, 0x04, 0x01, 0x97, 0x55, 0x01, 0x05, 0x01];
pub const OID_ED25519: &[u8] = &[0x2B, 0x06, 0x01, 0x04, 0x01, 0xDA, 0x47, 0x0F, 0x01];
pub const OID_K256: &[u8] = &[0x2B, 0x81, 0x04, 0x00, 0x0A];

#[derive(Debug, Clone, PartialEq, Eq)]
pub struct EcdhPub {
    pub oid: Vec<u8>,
    /// point as in the MPI (0x04||x||y or 0x40||x)
    pub point: Vec<u8>,
    pub kdf_hash: u8,
    pub kek_alg: u8,
}

pub fn parse_ecdh_material(m: &[u8]) -> Option<EcdhPub> {
    let l = *m.first()? as usize;
    let oid = m.get(1..1 + l)?.to_vec();
    let (point, p) = read_mpi(m, 1 + l)?;
    let kl = *m.get(p)? as usize;
    if kl != 3 || *m.get(p + 1)? != 1 {
        return None;
    }
    Some(EcdhPub {
        oid,
        point: point.to_vec(),
        kdf_hash: *m.get(p + 2)?,
        kek_alg: *m.get(p + 3)?,
    })
}

/// KDF parameter block
pub fn ecdh_kdf_param(k: &EcdhPub, fingerprint: &[u8]) -> Vec<u8> {
    let mut o = vec![k.oid.len() as u8];
    o.extend(&k.oid);
    o.push(18);
    o.extend([3, 1, k.kdf_hash, k.kek_alg]);
    o.extend(b"Anonymous Sender    ");
    o.extend(fingerprint);
    o
}

pub fn ecdh_kek(k: &EcdhPub, fingerprint: &[u8], shared: &[u8]) -> Option<Vec<u8>> {
    let param = ecdh_kdf_param(k, fingerprint);
    let h = hash(k.kdf_hash, &[&[0, 0, 0, 1], shared, &param])?;
    let ks = key_size(k.kek_alg)?;
    if h.len() < ks {
        return None;
    }
    Some(h[..ks].to_vec())
}

/// PKCS5-style padding to a multiple of 8 (always at least one octet)
pub fn pkcs5_pad(m: &[u8]) -> Vec<u8> {
    let pad = 8 - m.len() % 8;
    let mut o = m.to_vec();
    o.extend(std::iter::repeat(pad as u8).take(pad));
    o
}
pub fn pkcs5_unpad(m: &[u8]) -> Option<Vec<u8>> {
    let pad = *m.last()? as usize;
    if pad == 0 || pad > 8 || pad > m.len() {
        return None;
    }
    if !m[m.len() - pad..].iter().all(|b| *b as usize == pad) {
        return None;
    }
    Some(m[..m.len() - pad].to_vec())
}

/// Shared secret for the recipient side given the recipient's secret scalar (big endian for
/// NIST curves; for Curve25519Legacy the *wire* form, i.e. big-endian / reversed native).
pub fn ecdh_shared_recipient(oid: &[u8], secret_wire: &[u8], ephemeral_point: &[u8]) -> Option<Vec<u8>> {
    use p256::elliptic_curve::sec1::FromEncodedPoint;
    if oid == OID_CV25519 {
        if ephemeral_point.len() != 33 || ephemeral_point[0] != 0x40 {
            return None;
        }
        let mut sk = [0u8; 32];
        if secret_wire.len() > 32 {
            return None;
        }
        // left pad then reverse to little endian
        sk[32 - secret_wire.len()..].copy_from_slice(secret_wire);
        sk.reverse();
        let secret = x25519_dalek::StaticSecret::from(sk);
        let mut pk = [0u8; 32];
        pk.copy_from_slice(&ephemeral_point[1..]);
        let shared = secret.diffie_hellman(&x25519_dalek::PublicKey::from(pk));
        return Some(shared.as_bytes().to_vec());
    }
    macro_rules! nist {
        ($c:ident, $n:expr) => {{
            let mut skb = vec![0u8; $n];
            if secret_wire.len() > $n {
                return None;
            }
            skb[$n - secret_wire.len()..].copy_from_slice(secret_wire);
            let sk = $c::SecretKey::from_slice(&skb).ok()?;
            let ep = $c::EncodedPoint::from_bytes(ephemeral_point).ok()?;
            let pk = Option::<$c::PublicKey>::from($c::PublicKey::from_encoded_point(&ep))?;
            let shared = $c::elliptic_curve::ecdh::diffie_hellman(sk.to_nonzero_scalar(), pk.as_affine());
            Some(shared.raw_secret_bytes().to_vec())
        }};
    }
    if oid == OID_P256 {
        nist!(p256, 32)
    } else if oid == OID_P384 {
        nist!(p384, 48)
    } else if oid == OID_P521 {
        nist!(p521, 66)
    } else {
        None
    }
}

/// Sender side: returns (ephemeral public point for the wire, shared secret) from a chosen
/// ephemeral scalar seed.
pub fn ecdh_shared_sender(oid: &[u8], recipient_point: &[u8], eph_seed: &[u8; 32]) -> Option<(Vec<u8>, Vec<u8>)> {
    use p256::elliptic_curve::sec1::{FromEncodedPoint, ToEncodedPoint};
    if oid == OID_CV25519 {
        if recipient_point.len() != 33 || recipient_point[0] != 0x40 {
            return None;
        }
        let secret = x25519_dalek::StaticSecret::from(*eph_seed);
        let public = x25519_dalek::PublicKey::from(&secret);
        let mut pk = [0u8; 32];
        pk.copy_from_slice(&recipient_point[1..]);
        let shared = secret.diffie_hellman(&x25519_dalek::PublicKey::from(pk));
        let mut wire = vec![0x40];
        wire.extend(public.as_bytes());
        return Some((wire, shared.as_bytes().to_vec()));
    }
    macro_rules! nist {
        ($c:ident, $n:expr) => {{
            let mut skb = vec![0u8; $n];
            // derive a scalar from the seed: hash-expand, clear top bits to stay below the order
            let h = hash(10, &[eph_seed])?;
            let m = $n.min(64);
            skb[$n - m..].copy_from_slice(&h[..m]);
            skb[0] = 0;
            if $n > 64 {
                skb[1] = 0;
            }
            skb[$n - m] &= 0x3F;
            let sk = $c::SecretKey::from_slice(&skb).ok()?;
            let ep = $c::EncodedPoint::from_bytes(recipient_point).ok()?;
            let pk = Option::<$c::PublicKey>::from($c::PublicKey::from_encoded_point(&ep))?;
            let shared = $c::elliptic_curve::ecdh::diffie_hellman(sk.to_nonzero_scalar(), pk.as_affine());
            let wire = sk.public_key().to_encoded_point(false).as_bytes().to_vec();
            Some((wire, shared.raw_secret_bytes().to_vec()))
        }};
    }
    if oid == OID_P256 {
        nist!(p256, 32)
    } else if oid == OID_P384 {
        nist!(p384, 48)
    } else if oid == OID_P521 {
        nist!(p521, 66)
    } else {
        None
    }
}

/// ECDH PKESK algorithm-specific fields: MPI(ephemeral) || len || wrapped
pub fn ecdh_wrap(k: &EcdhPub, fingerprint: &[u8], eph_seed: &[u8; 32], plain: &[u8]) -> Option<Vec<u8>> {
    let (eph, shared) = ecdh_shared_sender(&k.oid, &k.point, eph_seed)?;
    let kek = ecdh_kek(k, fingerprint, &shared)?;
    let wrapped = aes_kw_wrap(&kek, &pkcs5_pad(plain))?;
    let mut o = mpi(&eph);
    o.push(wrapped.len() as u8);
    o.extend(wrapped);
    Some(o)
}

/// Recipient side for the fields produced by the library: returns the unpadded plaintext.
pub fn ecdh_unwrap(k: &EcdhPub, fingerprint: &[u8], secret_wire: &[u8], fields: &[u8]) -> Option<Vec<u8>> {
    let (eph, p) = read_mpi(fields, 0)?;
    let l = *fields.get(p)? as usize;
    let wrapped = fields.get(p + 1..p + 1 + l)?;
    let shared = ecdh_shared_recipient(&k.oid, secret_wire, eph)?;
    let kek = ecdh_kek(k, fingerprint, &shared)?;
    pkcs5_unpad(&aes_kw_unwrap(&kek, wrapped)?)
}

// ---------------------------------------------------------------------------------------
// X25519 / X448 (RFC 9580 5.1.6, 5.1.7)

/// Returns (ephemeral public 32, wrapped key)
pub fn x25519_wrap(recipient_pub: &[u8; 32], eph_seed: &[u8; 32], session_key: &[u8]) -> Option<(Vec<u8>, Vec<u8>)> {
    let secret = x25519_dalek::StaticSecret::from(*eph_seed);
    let public = x25519_dalek::PublicKey::from(&secret);
    let shared = secret.diffie_hellman(&x25519_dalek::PublicKey::from(*recipient_pub));
    let mut ikm = public.as_bytes().to_vec();
    ikm.extend(recipient_pub);
    ikm.extend(shared.as_bytes());
    let kek = hkdf_sha256(None, &ikm, b"OpenPGP X25519", 16);
    Some((public.as_bytes().to_vec(), aes_kw_wrap(&kek, session_key)?))
}

pub fn x25519_unwrap(recipient_secret: &[u8; 32], ephemeral: &[u8; 32], wrapped: &[u8]) -> Option<Vec<u8>> {
    let secret = x25519_dalek::StaticSecret::from(*recipient_secret);
    let public = x25519_dalek::PublicKey::from(&secret);
    let shared = secret.diffie_hellman(&x25519_dalek::PublicKey::from(*ephemeral));
    let mut ikm = ephemeral.to_vec();
    ikm.extend(public.as_bytes());
    ikm.extend(shared.as_bytes());
    let kek = hkdf_sha256(None, &ikm, b"OpenPGP X25519", 16);
    aes_kw_unwrap(&kek, wrapped)
}

pub fn hkdf_sha512(ikm: &[u8], info: &[u8], len: usize) -> Vec<u8> {
    let hk = hkdf::Hkdf::<sha2::Sha512>::new(None, ikm);
    let mut out = vec![0u8; len];
    hk.expand(info, &mut out).expect("hkdf length");
    out
}

pub fn x448_unwrap(recipient_secret: &[u8; 56], ephemeral: &[u8; 56], wrapped: &[u8]) -> Option<Vec<u8>> {
    let secret = cx448::x448::Secret::from(*recipient_secret);
    let public = cx448::x448::PublicKey::from(&secret);
    let eph = cx448::x448::PublicKey::from_bytes(ephemeral)?;
    let shared = secret.as_diffie_hellman(&eph)?;
    let mut ikm = ephemeral.to_vec();
    ikm.extend(public.as_bytes());
    ikm.extend(shared.as_bytes());
    let kek = hkdf_sha512(&ikm, b"OpenPGP X448", 32);
    aes_kw_unwrap(&kek, wrapped)
}

pub fn x448_wrap(recipient_pub: &[u8; 56], eph_seed: &[u8; 56], session_key: &[u8]) -> Option<(Vec<u8>, Vec<u8>)> {
    let secret = cx448::x448::Secret::from(*eph_seed);
    let public = cx448::x448::PublicKey::from(&secret);
    let rp = cx448::x448::PublicKey::from_bytes(recipient_pub)?;
    let shared = secret.as_diffie_hellman(&rp)?;
    let mut ikm = public.as_bytes().to_vec();
    ikm.extend(recipient_pub);
    ikm.extend(shared.as_bytes());
    let kek = hkdf_sha512(&ikm, b"OpenPGP X448", 32);
    Some((public.as_bytes().to_vec(), aes_kw_wrap(&kek, session_key)?))
}
