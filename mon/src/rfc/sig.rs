//! Reference: signature packets (v3/v4/v6), subpacket areas, one-pass signatures, and the
//! digests of RFC 9580 section 5.2.4.

use super::{be32, canon_text, hash};

#[derive(Debug, Clone, PartialEq, Eq)]
pub struct RefSig {
    pub version: u8,
    pub typ: u8,
    pub pub_alg: u8,
    pub hash_alg: u8,
    /// v3 only
    pub created: u32,
    pub issuer: [u8; 8],
    /// raw hashed / unhashed subpacket areas (v4/v6)
    pub hashed: Vec<u8>,
    pub unhashed: Vec<u8>,
    pub left16: [u8; 2],
    pub salt: Vec<u8>,
    /// raw algorithm specific signature data
    pub sig_data: Vec<u8>,
    /// offsets into the body, for targeted tampering
    pub off_hashed: usize,
    pub off_unhashed: usize,
    pub off_left16: usize,
    pub off_salt: usize,
    pub off_sig: usize,
}

pub fn parse_sig(body: &[u8]) -> Result<RefSig, String> {
    let e = || "truncated signature".to_string();
    let version = *body.first().ok_or_else(e)?;
    match version {
        2 | 3 => {
            if body.len() < 19 {
                return Err(e());
            }
            if body[1] != 5 {
                return Err("v3 hashed len != 5".into());
            }
            let typ = body[2];
            let created = u32::from_be_bytes([body[3], body[4], body[5], body[6]]);
            let mut issuer = [0u8; 8];
            issuer.copy_from_slice(&body[7..15]);
            Ok(RefSig {
                version,
                typ,
                pub_alg: body[15],
                hash_alg: body[16],
                created,
                issuer,
                hashed: vec![],
                unhashed: vec![],
                left16: [body[17], body[18]],
                salt: vec![],
                sig_data: body[19..].to_vec(),
                off_hashed: 2,
                off_unhashed: 0,
                off_left16: 17,
                off_salt: 0,
                off_sig: 19,
            })
        }
        4 | 6 => {
            let w = if version == 4 { 2 } else { 4 };
            if body.len() < 4 + w {
                return Err(e());
            }
            let rd = |p: usize| -> Result<usize, String> {
                if p + w > body.len() {
                    return Err(e());
                }
                Ok(if w == 2 {
                    u16::from_be_bytes([body[p], body[p + 1]]) as usize
                } else {
                    u32::from_be_bytes([body[p], body[p + 1], body[p + 2], body[p + 3]]) as usize
                })
            };
            let hl = rd(4)?;
            let off_hashed = 4 + w;
            if off_hashed + hl > body.len() {
                return Err(e());
            }
            let hashed = body[off_hashed..off_hashed + hl].to_vec();
            let p = off_hashed + hl;
            let ul = rd(p)?;
            let off_unhashed = p + w;
            if off_unhashed + ul > body.len() {
                return Err(e());
            }
            let unhashed = body[off_unhashed..off_unhashed + ul].to_vec();
            let mut p = off_unhashed + ul;
            if p + 2 > body.len() {
                return Err(e());
            }
            let left16 = [body[p], body[p + 1]];
            let off_left16 = p;
            p += 2;
            let mut salt = vec![];
            let mut off_salt = 0;
            if version == 6 {
                if p >= body.len() {
                    return Err(e());
                }
                let sl = body[p] as usize;
                p += 1;
                if p + sl > body.len() {
                    return Err(e());
                }
                off_salt = p;
                salt = body[p..p + sl].to_vec();
                p += sl;
            }
            Ok(RefSig {
                version,
                typ: body[1],
                pub_alg: body[2],
                hash_alg: body[3],
                created: 0,
                issuer: [0; 8],
                hashed,
                unhashed,
                left16,
                salt,
                sig_data: body[p..].to_vec(),
                off_hashed,
                off_unhashed,
                off_left16,
                off_salt,
                off_sig: p,
            })
        }
        v => Err(format!("unsupported signature version {v}")),
    }
}

impl RefSig {
    pub fn encode(&self) -> Vec<u8> {
        let mut o = vec![self.version];
        match self.version {
            2 | 3 => {
                o.push(5);
                o.push(self.typ);
                o.extend(be32(self.created));
                o.extend(self.issuer);
                o.push(self.pub_alg);
                o.push(self.hash_alg);
                o.extend(self.left16);
                o.extend(&self.sig_data);
            }
            _ => {
                o.push(self.typ);
                o.push(self.pub_alg);
                o.push(self.hash_alg);
                if self.version == 4 {
                    o.extend((self.hashed.len() as u16).to_be_bytes());
                } else {
                    o.extend((self.hashed.len() as u32).to_be_bytes());
                }
                o.extend(&self.hashed);
                if self.version == 4 {
                    o.extend((self.unhashed.len() as u16).to_be_bytes());
                } else {
                    o.extend((self.unhashed.len() as u32).to_be_bytes());
                }
                o.extend(&self.unhashed);
                o.extend(self.left16);
                if self.version == 6 {
                    o.push(self.salt.len() as u8);
                    o.extend(&self.salt);
                }
                o.extend(&self.sig_data);
            }
        }
        o
    }

    /// The octets of the signature packet that are hashed, followed by the trailer
    /// (5.2.4: "hashed data" + version, 0xFF, be32(len)). For v3: type + creation time.
    pub fn hashed_tail(&self) -> Vec<u8> {
        match self.version {
            2 | 3 => {
                let mut o = vec![self.typ];
                o.extend(be32(self.created));
                o
            }
            _ => {
                let mut o = vec![self.version, self.typ, self.pub_alg, self.hash_alg];
                if self.version == 4 {
                    o.extend((self.hashed.len() as u16).to_be_bytes());
                } else {
                    o.extend((self.hashed.len() as u32).to_be_bytes());
                }
                o.extend(&self.hashed);
                let n = o.len() as u32;
                o.push(self.version);
                o.push(0xFF);
                o.extend(be32(n));
                o
            }
        }
    }

    /// digest over arbitrary pre-framed `content` (whatever precedes the signature fields)
    pub fn digest_over(&self, content: &[&[u8]]) -> Option<Vec<u8>> {
        let tail = self.hashed_tail();
        let mut parts: Vec<&[u8]> = vec![];
        if self.version == 6 {
            parts.push(&self.salt);
        }
        parts.extend_from_slice(content);
        parts.push(&tail);
        hash(self.hash_alg, &parts)
    }

    /// digest for a document signature (type 0x00 binary, 0x01 text)
    pub fn digest_document(&self, doc: &[u8]) -> Option<Vec<u8>> {
        if self.typ == 1 {
            let c = canon_text(doc);
            self.digest_over(&[&c])
        } else {
            self.digest_over(&[doc])
        }
    }
}

/// Framing of a key for hashing: 0x99 + be16(len) (v3/v4), 0x9B + be32(len) (v6);
/// `pub_body` is the body of the *public* key packet.
pub fn key_hash_framing(pub_body: &[u8]) -> Vec<u8> {
    let v = pub_body.first().copied().unwrap_or(4);
    let mut o = vec![];
    if v == 6 {
        o.push(0x9B);
        o.extend(be32(pub_body.len() as u32));
    } else {
        o.push(0x99);
        o.extend((pub_body.len() as u16).to_be_bytes());
    }
    o.extend_from_slice(pub_body);
    o
}

/// Framing of a user id (0xB4) or user attribute (0xD1) for v4/v6 certifications; v3: bare.
pub fn uid_hash_framing(sig_version: u8, is_attribute: bool, body: &[u8]) -> Vec<u8> {
    let mut o = vec![];
    if sig_version >= 4 {
        o.push(if is_attribute { 0xD1 } else { 0xB4 });
        o.extend(be32(body.len() as u32));
    }
    o.extend_from_slice(body);
    o
}

#[derive(Debug, Clone, PartialEq, Eq)]
pub struct RefSubpacket {
    pub critical: bool,
    pub typ: u8,
    pub body: Vec<u8>,
    /// how many octets the length used on the wire (1, 2, 5)
    pub len_octets: u8,
    pub offset: usize,
    pub total_len: usize,
}

pub fn parse_subpackets(area: &[u8]) -> Result<Vec<RefSubpacket>, String> {
    let mut out = vec![];
    let mut p = 0;
    while p < area.len() {
        let start = p;
        let o = area[p];
        let (len, lo) = if o < 192 {
            p += 1;
            (o as usize, 1)
        } else if o < 255 {
            if p + 2 > area.len() {
                return Err("subpacket length truncated".into());
            }
            let l = ((o as usize - 192) << 8) + area[p + 1] as usize + 192;
            p += 2;
            (l, 2)
        } else {
            if p + 5 > area.len() {
                return Err("subpacket length truncated".into());
            }
            let l =
                u32::from_be_bytes([area[p + 1], area[p + 2], area[p + 3], area[p + 4]]) as usize;
            p += 5;
            (l, 5)
        };
        if len == 0 || p + len > area.len() {
            return Err("subpacket body truncated".into());
        }
        let t = area[p];
        out.push(RefSubpacket {
            critical: t & 0x80 != 0,
            typ: t & 0x7F,
            body: area[p + 1..p + len].to_vec(),
            len_octets: lo,
            offset: start,
            total_len: p + len - start,
        });
        p += len;
    }
    Ok(out)
}

/// Encode one subpacket. `len_octets` 0 = minimal.
pub fn encode_subpacket(typ: u8, critical: bool, body: &[u8], len_octets: u8) -> Vec<u8> {
    let len = body.len() + 1;
    let mut o = vec![];
    match len_octets {
        1 => {
            assert!(len < 192);
            o.push(len as u8)
        }
        2 => {
            assert!((192..16320).contains(&len));
            let v = len - 192;
            o.push((v >> 8) as u8 + 192);
            o.push(v as u8);
        }
        5 => {
            o.push(255);
            o.extend(be32(len as u32));
        }
        _ => {
            if len < 192 {
                o.push(len as u8)
            } else if len < 16320 {
                let v = len - 192;
                o.push((v >> 8) as u8 + 192);
                o.push(v as u8);
            } else {
                o.push(255);
                o.extend(be32(len as u32));
            }
        }
    }
    o.push(typ | if critical { 0x80 } else { 0 });
    o.extend_from_slice(body);
    o
}

#[derive(Debug, Clone, PartialEq, Eq)]
pub struct RefOps {
    pub version: u8,
    pub typ: u8,
    pub hash_alg: u8,
    pub pub_alg: u8,
    pub salt: Vec<u8>,
    /// 8-octet key id (v3) or 32-octet fingerprint (v6)
    pub issuer: Vec<u8>,
    pub last: u8,
}

pub fn parse_ops(body: &[u8]) -> Result<RefOps, String> {
    let e = || "truncated ops".to_string();
    let v = *body.first().ok_or_else(e)?;
    match v {
        3 => {
            if body.len() != 13 {
                return Err("ops v3 length".into());
            }
            Ok(RefOps {
                version: 3,
                typ: body[1],
                hash_alg: body[2],
                pub_alg: body[3],
                salt: vec![],
                issuer: body[4..12].to_vec(),
                last: body[12],
            })
        }
        6 => {
            if body.len() < 5 {
                return Err(e());
            }
            let sl = body[4] as usize;
            if body.len() != 5 + sl + 32 + 1 {
                return Err("ops v6 length".into());
            }
            Ok(RefOps {
                version: 6,
                typ: body[1],
                hash_alg: body[2],
                pub_alg: body[3],
                salt: body[5..5 + sl].to_vec(),
                issuer: body[5 + sl..5 + sl + 32].to_vec(),
                last: body[5 + sl + 32],
            })
        }
        _ => Err(format!("ops version {v}")),
    }
}

impl RefOps {
    pub fn encode(&self) -> Vec<u8> {
        let mut o = vec![self.version, self.typ, self.hash_alg, self.pub_alg];
        if self.version == 6 {
            o.push(self.salt.len() as u8);
            o.extend(&self.salt);
        }
        o.extend(&self.issuer);
        o.push(self.last);
        o
    }
}
