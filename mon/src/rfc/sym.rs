//! Reference symmetric constructions: OpenPGP CFB, SEIPDv1 (MDC), SED (resync), SEIPDv2
//! (HKDF + chunked AEAD), S2K, SKESK v4/v6, AES key wrap (RFC 3394), secret key protection.
//! Only block ciphers, AEADs, hashes, HKDF and Argon2 primitives are used.

use aead::{AeadInPlace, KeyInit};
use cipher::{BlockEncrypt, KeyInit as CKeyInit};
use generic_array::GenericArray;

use super::{hash, hash_len, sum16};

pub fn key_size(alg: u8) -> Option<usize> {
    Some(match alg {
        1 => 16,
        2 => 24,
        3 => 16,
        4 => 16,
        7 => 16,
        8 => 24,
        9 => 32,
        10 => 32,
        11 => 16,
        12 => 24,
        13 => 32,
        _ => return None,
    })
}
pub fn block_size(alg: u8) -> Option<usize> {
    Some(match alg {
        1..=4 => 8,
        7..=13 => 16,
        _ => return None,
    })
}

pub const ALL_CIPHERS: [u8; 11] = [1, 2, 3, 4, 7, 8, 9, 10, 11, 12, 13];

/// Single-block ECB encryption closure for cipher `alg`.
pub fn block_encryptor(alg: u8, key: &[u8]) -> Option<Box<dyn Fn(&mut [u8])>> {
    macro_rules! mk {
        ($t:ty) => {{
            let c = <$t as CKeyInit>::new_from_slice(key).ok()?;
            Some(Box::new(move |b: &mut [u8]| {
                c.encrypt_block(GenericArray::from_mut_slice(b));
            }))
        }};
    }
    if key.len() != key_size(alg)? {
        return None;
    }
    match alg {
        1 => mk!(idea::Idea),
        2 => mk!(des::TdesEde3),
        3 => mk!(cast5::Cast5),
        4 => mk!(blowfish::Blowfish),
        7 => mk!(aes::Aes128),
        8 => mk!(aes::Aes192),
        9 => mk!(aes::Aes256),
        10 => mk!(twofish::Twofish),
        11 => mk!(camellia::Camellia128),
        12 => mk!(camellia::Camellia192),
        13 => mk!(camellia::Camellia256),
        _ => None,
    }
}

/// Plain CFB (full-block feedback) with explicit IV. Works on partial final block.
pub fn cfb_encrypt(alg: u8, key: &[u8], iv: &[u8], data: &mut [u8]) -> Option<()> {
    let enc = block_encryptor(alg, key)?;
    let bs = block_size(alg)?;
    if iv.len() != bs {
        return None;
    }
    let mut fb = iv.to_vec();
    for chunk in data.chunks_mut(bs) {
        enc(&mut fb);
        for (i, b) in chunk.iter_mut().enumerate() {
            *b ^= fb[i];
            fb[i] = *b;
        }
        // for a partial last block feedback beyond is irrelevant
    }
    Some(())
}

pub fn cfb_decrypt(alg: u8, key: &[u8], iv: &[u8], data: &mut [u8]) -> Option<()> {
    let enc = block_encryptor(alg, key)?;
    let bs = block_size(alg)?;
    if iv.len() != bs {
        return None;
    }
    let mut fb = iv.to_vec();
    for chunk in data.chunks_mut(bs) {
        enc(&mut fb);
        for (i, b) in chunk.iter_mut().enumerate() {
            let c = *b;
            *b ^= fb[i];
            fb[i] = c;
        }
    }
    Some(())
}

/// SEIPDv1 body (after the version octet): CFB(IV=0) over prefix || data || MDC.
/// `prefix_rand` must be block-size octets.
pub fn seipd_v1_encrypt(alg: u8, key: &[u8], prefix_rand: &[u8], data: &[u8]) -> Option<Vec<u8>> {
    let bs = block_size(alg)?;
    if prefix_rand.len() != bs {
        return None;
    }
    let mut pt = prefix_rand.to_vec();
    pt.push(prefix_rand[bs - 2]);
    pt.push(prefix_rand[bs - 1]);
    pt.extend_from_slice(data);
    pt.push(0xD3);
    pt.push(0x14);
    let h = hash(2, &[&pt])?;
    pt.extend(h);
    cfb_encrypt(alg, key, &vec![0u8; bs], &mut pt)?;
    Some(pt)
}

#[derive(Debug, PartialEq, Eq)]
pub enum V1Error {
    Unsupported,
    TooShort,
    QuickCheck,
    Mdc,
}

/// Returns the inner plaintext (without prefix and MDC) if the MDC verifies.
pub fn seipd_v1_decrypt(alg: u8, key: &[u8], ct: &[u8]) -> Result<Vec<u8>, V1Error> {
    let bs = block_size(alg).ok_or(V1Error::Unsupported)?;
    if ct.len() < bs + 2 + 22 {
        return Err(V1Error::TooShort);
    }
    let mut pt = ct.to_vec();
    cfb_decrypt(alg, key, &vec![0u8; bs], &mut pt).ok_or(V1Error::Unsupported)?;
    if pt[bs] != pt[bs - 2] || pt[bs + 1] != pt[bs - 1] {
        return Err(V1Error::QuickCheck);
    }
    let n = pt.len();
    let h = hash(2, &[&pt[..n - 20]]).unwrap();
    if pt[n - 22] != 0xD3 || pt[n - 21] != 0x14 || pt[n - 20..] != h[..] {
        return Err(V1Error::Mdc);
    }
    Ok(pt[bs + 2..n - 22].to_vec())
}

/// Legacy SED (tag 9) with resynchronisation.
pub fn sed_encrypt(alg: u8, key: &[u8], prefix_rand: &[u8], data: &[u8]) -> Option<Vec<u8>> {
    let bs = block_size(alg)?;
    let mut prefix = prefix_rand.to_vec();
    prefix.push(prefix_rand[bs - 2]);
    prefix.push(prefix_rand[bs - 1]);
    // encrypt bs+2 octets with IV 0
    cfb_encrypt(alg, key, &vec![0u8; bs], &mut prefix)?;
    let iv2 = prefix[2..bs + 2].to_vec();
    let mut rest = data.to_vec();
    cfb_encrypt(alg, key, &iv2, &mut rest)?;
    prefix.extend(rest);
    Some(prefix)
}

pub fn sed_decrypt(alg: u8, key: &[u8], ct: &[u8]) -> Option<Vec<u8>> {
    let bs = block_size(alg)?;
    if ct.len() < bs + 2 {
        return None;
    }
    let iv2 = ct[2..bs + 2].to_vec();
    let mut rest = ct[bs + 2..].to_vec();
    cfb_decrypt(alg, key, &iv2, &mut rest)?;
    Some(rest)
}

// ---------------------------------------------------------------------------------------
// AEAD

pub fn aead_nonce_len(aead: u8) -> Option<usize> {
    Some(match aead {
        1 => 16,
        2 => 15,
        3 => 12,
        _ => return None,
    })
}

type Ocb128 = ocb3::Ocb3<aes::Aes128, generic_array::typenum::U15, generic_array::typenum::U16>;
type Ocb192 = ocb3::Ocb3<aes::Aes192, generic_array::typenum::U15, generic_array::typenum::U16>;
type Ocb256 = ocb3::Ocb3<aes::Aes256, generic_array::typenum::U15, generic_array::typenum::U16>;
type Gcm192 = aes_gcm::AesGcm<aes::Aes192, generic_array::typenum::U12>;

/// AEAD seal: returns ciphertext || tag
pub fn aead_seal(sym: u8, aead: u8, key: &[u8], nonce: &[u8], ad: &[u8], pt: &[u8]) -> Option<Vec<u8>> {
    let mut buf = pt.to_vec();
    macro_rules! run {
        ($t:ty) => {{
            let c = <$t as KeyInit>::new_from_slice(key).ok()?;
            c.encrypt_in_place(GenericArray::from_slice(nonce), ad, &mut buf)
                .ok()?;
        }};
    }
    if nonce.len() != aead_nonce_len(aead)? || key.len() != key_size(sym)? {
        return None;
    }
    match (sym, aead) {
        (7, 1) => run!(eax::Eax<aes::Aes128>),
        (8, 1) => run!(eax::Eax<aes::Aes192>),
        (9, 1) => run!(eax::Eax<aes::Aes256>),
        (7, 2) => run!(Ocb128),
        (8, 2) => run!(Ocb192),
        (9, 2) => run!(Ocb256),
        (7, 3) => run!(aes_gcm::Aes128Gcm),
        (8, 3) => run!(Gcm192),
        (9, 3) => run!(aes_gcm::Aes256Gcm),
        _ => return None,
    }
    Some(buf)
}

/// AEAD open: input ciphertext || tag. None on unsupported; Some(Err) on auth failure.
pub fn aead_open(
    sym: u8,
    aead: u8,
    key: &[u8],
    nonce: &[u8],
    ad: &[u8],
    ct: &[u8],
) -> Option<Result<Vec<u8>, ()>> {
    let mut buf = ct.to_vec();
    macro_rules! run {
        ($t:ty) => {{
            let c = <$t as KeyInit>::new_from_slice(key).ok()?;
            c.decrypt_in_place(GenericArray::from_slice(nonce), ad, &mut buf)
                .map_err(|_| ())
        }};
    }
    if nonce.len() != aead_nonce_len(aead)? || key.len() != key_size(sym)? {
        return None;
    }
    let r = match (sym, aead) {
        (7, 1) => run!(eax::Eax<aes::Aes128>),
        (8, 1) => run!(eax::Eax<aes::Aes192>),
        (9, 1) => run!(eax::Eax<aes::Aes256>),
        (7, 2) => run!(Ocb128),
        (8, 2) => run!(Ocb192),
        (9, 2) => run!(Ocb256),
        (7, 3) => run!(aes_gcm::Aes128Gcm),
        (8, 3) => run!(Gcm192),
        (9, 3) => run!(aes_gcm::Aes256Gcm),
        _ => return None,
    };
    Some(r.map(|_| buf))
}

pub fn hkdf_sha256(salt: Option<&[u8]>, ikm: &[u8], info: &[u8], len: usize) -> Vec<u8> {
    let hk = hkdf::Hkdf::<sha2::Sha256>::new(salt, ikm);
    let mut out = vec![0u8; len];
    hk.expand(info, &mut out).expect("hkdf length");
    out
}

/// SEIPDv2: derives (message key, iv)
pub fn seipd_v2_keys(sym: u8, aead: u8, chunk_octet: u8, salt: &[u8; 32], sk: &[u8]) -> Option<(Vec<u8>, Vec<u8>)> {
    let ks = key_size(sym)?;
    let ns = aead_nonce_len(aead)?;
    let info = [0xD2, 2, sym, aead, chunk_octet];
    let okm = hkdf_sha256(Some(salt), sk, &info, ks + ns - 8);
    Some((okm[..ks].to_vec(), okm[ks..].to_vec()))
}

/// Full SEIPDv2 packet body: version(2) cipher aead chunk salt || chunks+tags || final tag
pub fn seipd_v2_encrypt(
    sym: u8,
    aead: u8,
    chunk_octet: u8,
    salt: &[u8; 32],
    sk: &[u8],
    data: &[u8],
) -> Option<Vec<u8>> {
    let (key, iv) = seipd_v2_keys(sym, aead, chunk_octet, salt, sk)?;
    let info = [0xD2u8, 2, sym, aead, chunk_octet];
    let cs = 1usize << (chunk_octet as usize + 6);
    let mut out = vec![2u8, sym, aead, chunk_octet];
    out.extend_from_slice(salt);
    let mut idx = 0u64;
    for c in data.chunks(cs) {
        let mut nonce = iv.clone();
        nonce.extend(idx.to_be_bytes());
        out.extend(aead_seal(sym, aead, &key, &nonce, &info, c)?);
        idx += 1;
    }
    let mut nonce = iv.clone();
    nonce.extend(idx.to_be_bytes());
    let mut ad = info.to_vec();
    ad.extend((data.len() as u64).to_be_bytes());
    out.extend(aead_seal(sym, aead, &key, &nonce, &ad, &[])?);
    Some(out)
}

#[derive(Debug, PartialEq, Eq)]
pub enum V2Error {
    Unsupported,
    Malformed,
    Auth(u64),
    FinalTag,
}

/// Decrypts a SEIPDv2 packet body with the session key.
pub fn seipd_v2_decrypt(body: &[u8], sk: &[u8]) -> Result<Vec<u8>, V2Error> {
    if body.len() < 36 + 16 || body[0] != 2 {
        return Err(V2Error::Malformed);
    }
    let (sym, aead, co) = (body[1], body[2], body[3]);
    if co > 16 {
        return Err(V2Error::Unsupported);
    }
    let mut salt = [0u8; 32];
    salt.copy_from_slice(&body[4..36]);
    let (key, iv) = seipd_v2_keys(sym, aead, co, &salt, sk).ok_or(V2Error::Unsupported)?;
    let info = [0xD2u8, 2, sym, aead, co];
    let cs = 1usize << (co as usize + 6);
    let ct = &body[36..];
    let (chunks, final_tag) = ct.split_at(ct.len() - 16);
    let mut out = vec![];
    let mut idx = 0u64;
    for c in chunks.chunks(cs + 16) {
        if c.len() < 16 {
            return Err(V2Error::Malformed);
        }
        let mut nonce = iv.clone();
        nonce.extend(idx.to_be_bytes());
        let pt = aead_open(sym, aead, &key, &nonce, &info, c)
            .ok_or(V2Error::Unsupported)?
            .map_err(|_| V2Error::Auth(idx))?;
        out.extend(pt);
        idx += 1;
    }
    let mut nonce = iv.clone();
    nonce.extend(idx.to_be_bytes());
    let mut ad = info.to_vec();
    ad.extend((out.len() as u64).to_be_bytes());
    aead_open(sym, aead, &key, &nonce, &ad, final_tag)
        .ok_or(V2Error::Unsupported)?
        .map_err(|_| V2Error::FinalTag)?;
    Ok(out)
}

// ---------------------------------------------------------------------------------------
// S2K

#[derive(Debug, Clone, PartialEq, Eq)]
pub enum RefS2k {
    Simple { hash: u8 },
    Salted { hash: u8, salt: [u8; 8] },
    Iterated { hash: u8, salt: [u8; 8], count: u8 },
    Argon2 { salt: [u8; 16], t: u8, p: u8, m: u8 },
}

pub fn s2k_decode_count(c: u8) -> usize {
    (16usize + (c as usize & 15)) << ((c as usize >> 4) + 6)
}

impl RefS2k {
    pub fn encode(&self) -> Vec<u8> {
        match self {
            RefS2k::Simple { hash } => vec![0, *hash],
            RefS2k::Salted { hash, salt } => {
                let mut o = vec![1, *hash];
                o.extend(salt);
                o
            }
            RefS2k::Iterated { hash, salt, count } => {
                let mut o = vec![3, *hash];
                o.extend(salt);
                o.push(*count);
                o
            }
            RefS2k::Argon2 { salt, t, p, m } => {
                let mut o = vec![4];
                o.extend(salt);
                o.push(*t);
                o.push(*p);
                o.push(*m);
                o
            }
        }
    }

    pub fn parse(b: &[u8]) -> Option<(RefS2k, usize)> {
        match *b.first()? {
            0 => Some((RefS2k::Simple { hash: *b.get(1)? }, 2)),
            1 => {
                let mut salt = [0u8; 8];
                salt.copy_from_slice(b.get(2..10)?);
                Some((RefS2k::Salted { hash: b[1], salt }, 10))
            }
            3 => {
                let mut salt = [0u8; 8];
                salt.copy_from_slice(b.get(2..10)?);
                Some((
                    RefS2k::Iterated {
                        hash: b[1],
                        salt,
                        count: *b.get(10)?,
                    },
                    11,
                ))
            }
            4 => {
                let mut salt = [0u8; 16];
                salt.copy_from_slice(b.get(1..17)?);
                Some((
                    RefS2k::Argon2 {
                        salt,
                        t: *b.get(17)?,
                        p: *b.get(18)?,
                        m: *b.get(19)?,
                    },
                    20,
                ))
            }
            _ => None,
        }
    }

    /// RFC 9580 3.7.1 key derivation
    pub fn derive(&self, pw: &[u8], key_len: usize) -> Option<Vec<u8>> {
        match self {
            RefS2k::Argon2 { salt, t, p, m } => {
                // RFC 9580 3.7.1.4: t, p >= 1 and 3 + ceil(log2 p) <= m <= 31
                if *t == 0 || *p == 0 || *m > 31 || (1u64 << *m) < 8 * *p as u64 {
                    return None;
                }
                let params =
                    argon2::Params::new(1u32 << *m, *t as u32, *p as u32, Some(key_len)).ok()?;
                let a = argon2::Argon2::new(argon2::Algorithm::Argon2id, argon2::Version::V0x13, params);
                let mut out = vec![0u8; key_len];
                a.hash_password_into(pw, salt, &mut out).ok()?;
                Some(out)
            }
            _ => {
                let h = match self {
                    RefS2k::Simple { hash } | RefS2k::Salted { hash, .. } | RefS2k::Iterated { hash, .. } => *hash,
                    _ => unreachable!(),
                };
                let hl = hash_len(h)?;
                let rounds = key_len.div_ceil(hl);
                let mut out = vec![];
                for r in 0..rounds {
                    let zeros = vec![0u8; r];
                    let d = match self {
                        RefS2k::Simple { .. } => hash(h, &[&zeros, pw])?,
                        RefS2k::Salted { salt, .. } => hash(h, &[&zeros, salt, pw])?,
                        RefS2k::Iterated { salt, count, .. } => {
                            let mut unit = salt.to_vec();
                            unit.extend_from_slice(pw);
                            let total = s2k_decode_count(*count).max(unit.len());
                            // hash `total` octets of the repeated unit
                            let mut stream = Vec::with_capacity(total + unit.len());
                            while stream.len() < total {
                                stream.extend_from_slice(&unit);
                            }
                            stream.truncate(total);
                            hash(h, &[&zeros, &stream])?
                        }
                        _ => unreachable!(),
                    };
                    out.extend(d);
                }
                out.truncate(key_len);
                Some(out)
            }
        }
    }
}

// ---------------------------------------------------------------------------------------
// SKESK

/// SKESK v4 body. If `session_key` is None the S2K output is the session key itself.
pub fn skesk_v4_encode(sym: u8, s2k: &RefS2k, pw: &[u8], session: Option<(u8, &[u8])>) -> Option<Vec<u8>> {
    let mut o = vec![4u8, sym];
    o.extend(s2k.encode());
    if let Some((sk_alg, sk)) = session {
        let key = s2k.derive(pw, key_size(sym)?)?;
        let mut pt = vec![sk_alg];
        pt.extend_from_slice(sk);
        let bs = block_size(sym)?;
        cfb_encrypt(sym, &key, &vec![0u8; bs], &mut pt)?;
        o.extend(pt);
    }
    Some(o)
}

/// Returns (session key algorithm, session key)
pub fn skesk_v4_decrypt(body: &[u8], pw: &[u8]) -> Option<(u8, Vec<u8>)> {
    if body.len() < 4 || body[0] != 4 {
        return None;
    }
    let sym = body[1];
    let (s2k, n) = RefS2k::parse(&body[2..])?;
    let key = s2k.derive(pw, key_size(sym)?)?;
    let rest = &body[2 + n..];
    if rest.is_empty() {
        return Some((sym, key));
    }
    let mut pt = rest.to_vec();
    cfb_decrypt(sym, &key, &vec![0u8; block_size(sym)?], &mut pt)?;
    Some((pt[0], pt[1..].to_vec()))
}

/// SKESK v6 body
pub fn skesk_v6_encode(sym: u8, aead: u8, s2k: &RefS2k, pw: &[u8], iv: &[u8], sk: &[u8]) -> Option<Vec<u8>> {
    let ikm = s2k.derive(pw, key_size(sym)?)?;
    let info = [0xC3u8, 6, sym, aead];
    let kek = hkdf_sha256(None, &ikm, &info, key_size(sym)?);
    let ct = aead_seal(sym, aead, &kek, iv, &info, sk)?;
    let s2kb = s2k.encode();
    let mut o = vec![6u8];
    let count = 3 + s2kb.len() + iv.len();
    o.push(count as u8);
    o.push(sym);
    o.push(aead);
    o.push(s2kb.len() as u8);
    o.extend(s2kb);
    o.extend_from_slice(iv);
    o.extend(ct);
    Some(o)
}

pub fn skesk_v6_decrypt(body: &[u8], pw: &[u8]) -> Option<Result<Vec<u8>, ()>> {
    if body.len() < 5 || body[0] != 6 {
        return None;
    }
    let sym = body[2];
    let aead = body[3];
    let s2k_len = body[4] as usize;
    let (s2k, n) = RefS2k::parse(body.get(5..5 + s2k_len)?)?;
    if n != s2k_len {
        return None;
    }
    let ns = aead_nonce_len(aead)?;
    let iv = body.get(5 + s2k_len..5 + s2k_len + ns)?;
    let ct = &body[5 + s2k_len + ns..];
    let ikm = s2k.derive(pw, key_size(sym)?)?;
    let info = [0xC3u8, 6, sym, aead];
    let kek = hkdf_sha256(None, &ikm, &info, key_size(sym)?);
    aead_open(sym, aead, &kek, iv, &info, ct)
}

// ---------------------------------------------------------------------------------------
// AES key wrap RFC 3394 (hand-written over the AES block primitive)

fn aes_block(key: &[u8]) -> Option<(Box<dyn Fn(&mut [u8])>, Box<dyn Fn(&mut [u8])>)> {
    use cipher::BlockDecrypt;
    macro_rules! mk {
        ($t:ty) => {{
            let c = <$t as CKeyInit>::new_from_slice(key).ok()?;
            let d = c.clone();
            Some((
                Box::new(move |b: &mut [u8]| c.encrypt_block(GenericArray::from_mut_slice(b)))
                    as Box<dyn Fn(&mut [u8])>,
                Box::new(move |b: &mut [u8]| d.decrypt_block(GenericArray::from_mut_slice(b)))
                    as Box<dyn Fn(&mut [u8])>,
            ))
        }};
    }
    match key.len() {
        16 => mk!(aes::Aes128),
        24 => mk!(aes::Aes192),
        32 => mk!(aes::Aes256),
        _ => None,
    }
}

pub fn aes_kw_wrap(kek: &[u8], data: &[u8]) -> Option<Vec<u8>> {
    if data.len() % 8 != 0 || data.len() < 16 {
        return None;
    }
    let (enc, _) = aes_block(kek)?;
    let n = data.len() / 8;
    let mut a = [0xA6u8; 8];
    let mut r: Vec<[u8; 8]> = data.chunks(8).map(|c| c.try_into().unwrap()).collect();
    for j in 0..6 {
        for i in 0..n {
            let mut b = [0u8; 16];
            b[..8].copy_from_slice(&a);
            b[8..].copy_from_slice(&r[i]);
            enc(&mut b);
            let t = (n * j + i + 1) as u64;
            a.copy_from_slice(&b[..8]);
            for (k, tb) in t.to_be_bytes().iter().enumerate() {
                a[k] ^= tb;
            }
            r[i].copy_from_slice(&b[8..]);
        }
    }
    let mut out = a.to_vec();
    for x in r {
        out.extend(x);
    }
    Some(out)
}

pub fn aes_kw_unwrap(kek: &[u8], data: &[u8]) -> Option<Vec<u8>> {
    if data.len() % 8 != 0 || data.len() < 24 {
        return None;
    }
    let (_, dec) = aes_block(kek)?;
    let n = data.len() / 8 - 1;
    let mut a: [u8; 8] = data[..8].try_into().unwrap();
    let mut r: Vec<[u8; 8]> = data[8..].chunks(8).map(|c| c.try_into().unwrap()).collect();
    for j in (0..6).rev() {
        for i in (0..n).rev() {
            let t = (n * j + i + 1) as u64;
            for (k, tb) in t.to_be_bytes().iter().enumerate() {
                a[k] ^= tb;
            }
            let mut b = [0u8; 16];
            b[..8].copy_from_slice(&a);
            b[8..].copy_from_slice(&r[i]);
            dec(&mut b);
            a.copy_from_slice(&b[..8]);
            r[i].copy_from_slice(&b[8..]);
        }
    }
    if a != [0xA6u8; 8] {
        return None;
    }
    let mut out = vec![];
    for x in r {
        out.extend(x);
    }
    Some(out)
}

/// Session key framing for PKESK v3: alg || key || sum16(key)
pub fn session_key_v3(alg: u8, key: &[u8]) -> Vec<u8> {
    let mut o = vec![alg];
    o.extend_from_slice(key);
    o.extend(sum16(key).to_be_bytes());
    o
}
/// v6 (RSA/ECDH): key || sum16(key)
pub fn session_key_v6(key: &[u8]) -> Vec<u8> {
    let mut o = key.to_vec();
    o.extend(sum16(key).to_be_bytes());
    o
}
