//! Independent reference implementation of the parts of RFC 9580 (and RFC 4880 legacy forms)
//! that the monitors use as oracle. Nothing in this module (or its sub-modules) calls into
//! the `pgp` crate: only primitive crates (hashes, block ciphers, AEADs, curves) are used.

pub mod armor;
pub mod frame;
pub mod sig;
pub mod sym;
pub mod key;
pub mod selfcheck;

use digest::Digest;

/// Hash by OpenPGP algorithm id. None for unknown ids.
pub fn hash(alg: u8, parts: &[&[u8]]) -> Option<Vec<u8>> {
    fn run<D: Digest>(parts: &[&[u8]]) -> Vec<u8> {
        let mut h = D::new();
        for p in parts {
            h.update(p);
        }
        h.finalize().to_vec()
    }
    Some(match alg {
        1 => run::<md5::Md5>(parts),
        2 => run::<sha1::Sha1>(parts),
        3 => run::<ripemd::Ripemd160>(parts),
        8 => run::<sha2::Sha256>(parts),
        9 => run::<sha2::Sha384>(parts),
        10 => run::<sha2::Sha512>(parts),
        11 => run::<sha2::Sha224>(parts),
        12 => run::<sha3::Sha3_256>(parts),
        14 => run::<sha3::Sha3_512>(parts),
        _ => return None,
    })
}

pub fn hash_len(alg: u8) -> Option<usize> {
    Some(match alg {
        1 => 16,
        2 | 3 => 20,
        8 | 12 => 32,
        9 => 48,
        10 | 14 => 64,
        11 => 28,
        _ => return None,
    })
}

/// v6 signature salt size per hash algorithm (RFC 9580 table 23)
pub fn salt_len(alg: u8) -> Option<usize> {
    Some(match alg {
        8 | 11 | 12 => 16,
        9 => 24,
        10 | 14 => 32,
        _ => return None,
    })
}

/// Canonical text form (RFC 9580 5.2.1.2 as implemented/documented by the library):
/// every LF that is not preceded by CR becomes CRLF; everything else unchanged.
pub fn canon_text(s: &[u8]) -> Vec<u8> {
    let mut out = Vec::with_capacity(s.len() + 16);
    let mut prev = 0u8;
    for (i, &b) in s.iter().enumerate() {
        if b == b'\n' && (i == 0 || prev != b'\r') {
            out.push(b'\r');
        }
        out.push(b);
        prev = b;
    }
    out
}

/// Simple sum-mod-65536 checksum
pub fn sum16(d: &[u8]) -> u16 {
    d.iter().fold(0u16, |a, b| a.wrapping_add(*b as u16))
}

pub fn be16(v: u16) -> [u8; 2] {
    v.to_be_bytes()
}
pub fn be32(v: u32) -> [u8; 4] {
    v.to_be_bytes()
}

/// MPI encoding of a big-endian integer (leading zero octets stripped)
pub fn mpi(v: &[u8]) -> Vec<u8> {
    let mut i = 0;
    while i < v.len() && v[i] == 0 {
        i += 1;
    }
    let v = &v[i..];
    let bits = if v.is_empty() {
        0
    } else {
        (v.len() * 8) as u32 - v[0].leading_zeros()
    };
    let mut out = (bits as u16).to_be_bytes().to_vec();
    out.extend_from_slice(v);
    out
}

/// Reads an MPI at `pos`, returns (value bytes as on the wire, new pos)
pub fn read_mpi(b: &[u8], pos: usize) -> Option<(&[u8], usize)> {
    if pos + 2 > b.len() {
        return None;
    }
    let bits = u16::from_be_bytes([b[pos], b[pos + 1]]) as usize;
    let len = bits.div_ceil(8);
    if pos + 2 + len > b.len() {
        return None;
    }
    Some((&b[pos + 2..pos + 2 + len], pos + 2 + len))
}
