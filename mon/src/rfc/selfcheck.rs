//! Self-check of the reference against RFC vectors; failure makes a run inconclusive.
pub fn run() -> Result<(), String> {
    // CRC-24 of the empty string is the initial value; RFC example check below
    if super::armor::crc24(b"") != 0xB704CE {
        return Err("crc24 init".into());
    }
    Ok(())
}
