//! Self-check of the reference against RFC 9580 Appendix A vectors (public test data, copies under
//! mon/vectors). A failure makes every run *inconclusive (harness fault)*, never a violation.

use super::armor::{armor_parse_strict, crc24};
use super::frame::deframe;
use super::key::{x25519_unwrap, RefPub, RefSecret};
use super::sig::{parse_ops, parse_sig};
use super::sym::{seipd_v1_decrypt, seipd_v2_decrypt, skesk_v4_decrypt, skesk_v6_decrypt};

const A3: &str = include_str!("../../vectors/a3.asc");
const A4: &str = include_str!("../../vectors/a4.asc");
const A7: &str = include_str!("../../vectors/a7.asc");
const A8: &str = include_str!("../../vectors/a8.asc");
const EAX: &str = include_str!("../../vectors/eax.msg");
const OCB: &str = include_str!("../../vectors/ocb.msg");
const GCM: &str = include_str!("../../vectors/gcm.msg");
const ARGON: [&str; 3] = [
    include_str!("../../vectors/argon2-aes128.msg"),
    include_str!("../../vectors/argon2-aes192.msg"),
    include_str!("../../vectors/argon2-aes256.msg"),
];

fn dearmor(s: &str) -> Result<Vec<u8>, String> {
    let s = s.replace("\r\n", "\n");
    let a = armor_parse_strict(s.trim_end_matches('\n')).or_else(|_| armor_parse_strict(&s))?;
    if let Some(c) = a.crc {
        if c != crc24(&a.data) {
            return Err("crc24 of RFC sample does not match".into());
        }
    }
    Ok(a.data)
}

/// literal packet body -> data
fn literal_data(body: &[u8]) -> Option<&[u8]> {
    let nl = *body.get(1)? as usize;
    body.get(2 + nl + 4..)
}

pub fn run(full: bool) -> Result<(), String> {
    if crc24(b"") != 0xB704CE {
        return Err("crc24 init".into());
    }
    // A.3 certificate: fingerprint
    let cert = dearmor(A3)?;
    let pk = deframe(&cert)?;
    let (primary, n) = RefPub::parse_prefix(&pk[0].body).ok_or("A.3 primary parse")?;
    if n != pk[0].body.len() {
        return Err("A.3 primary trailing".into());
    }
    let fp = hex::encode_upper(primary.fingerprint());
    if fp != "CB186C4F0609A697E4D52DFA6C722B0C1F1E27C18A56708F6525EC27BAD9ACC9" {
        return Err(format!("A.3 fingerprint {fp}"));
    }
    if hex::encode_upper(primary.key_id()) != "CB186C4F0609A697" {
        return Err("A.3 key id".into());
    }
    let sub = pk.iter().find(|p| p.tag == 14).ok_or("A.3 subkey")?;
    let (subkey, _) = RefPub::parse_prefix(&sub.body).ok_or("A.3 subkey parse")?;
    if hex::encode_upper(subkey.fingerprint())
        != "12C83F1E706F6308FE151A417743A1F033790E93E9978488D1DB378DA9930885"
    {
        return Err("A.3 subkey fingerprint".into());
    }

    // A.3 direct key signature and subkey binding: digest prefix and Ed25519 verification
    let vk = ed25519_dalek::VerifyingKey::from_bytes(
        primary.material[..32].try_into().map_err(|_| "ed key")?,
    )
    .map_err(|e| e.to_string())?;
    let check_sig = |body: &[u8], content: &[&[u8]]| -> Result<(), String> {
        let s = parse_sig(body)?;
        let d = s.digest_over(content).ok_or("digest")?;
        if d[..2] != s.left16 {
            return Err(format!("left16 mismatch for sig type {:#x}", s.typ));
        }
        let sig = ed25519_dalek::Signature::from_slice(&s.sig_data).map_err(|e| e.to_string())?;
        vk.verify_strict(&d, &sig).map_err(|e| format!("ed25519 verify: {e}"))
    };
    let kf = super::sig::key_hash_framing(&pk[0].body);
    let skf = super::sig::key_hash_framing(&sub.body);
    let sigs: Vec<_> = pk.iter().filter(|p| p.tag == 2).collect();
    if sigs.len() != 2 {
        return Err("A.3 signature count".into());
    }
    check_sig(&sigs[0].body, &[&kf])?;
    check_sig(&sigs[1].body, &[&kf, &skf])?;

    // A.7 inline signed message
    let m = deframe(&dearmor(A7)?)?;
    if m.len() != 3 || m[0].tag != 4 || m[1].tag != 11 || m[2].tag != 2 {
        return Err("A.7 structure".into());
    }
    let ops = parse_ops(&m[0].body)?;
    let s = parse_sig(&m[2].body)?;
    if ops.salt != s.salt || ops.issuer != primary.fingerprint() {
        return Err("A.7 ops".into());
    }
    let data = literal_data(&m[1].body).ok_or("A.7 literal")?;
    {
        let d = s.digest_document(data).ok_or("A.7 digest")?;
        if d[..2] != s.left16 {
            return Err("A.7 left16".into());
        }
        let sig = ed25519_dalek::Signature::from_slice(&s.sig_data).map_err(|e| e.to_string())?;
        vk.verify_strict(&d, &sig).map_err(|e| format!("A.7 verify: {e}"))?;
    }

    // A.4 secret key + A.8 X25519 / SEIPDv2 OCB message
    let tsk = deframe(&dearmor(A4)?)?;
    let ssub = tsk.iter().find(|p| p.tag == 7).ok_or("A.4 subkey")?;
    let sec = RefSecret::parse(&ssub.body).ok_or("A.4 secret parse")?;
    let material = sec.unlock(7, b"").ok_or("A.4 unlock")?.map_err(|_| "A.4 unlock err")?;
    let msg = deframe(&dearmor(A8)?)?;
    let pkesk = &msg[0].body;
    // v6 PKESK: version, fp len, fp version, fp, alg, ephemeral 32, len, wrapped
    if pkesk[0] != 6 || pkesk[1] != 33 || pkesk[2] != 6 || pkesk[35] != 25 {
        return Err("A.8 pkesk layout".into());
    }
    let eph: [u8; 32] = pkesk[36..68].try_into().unwrap();
    let l = pkesk[68] as usize;
    let wrapped = &pkesk[69..69 + l];
    let sk = x25519_unwrap(material[..32].try_into().unwrap(), &eph, wrapped).ok_or("A.8 unwrap")?;
    if hex::encode(&sk) != "dd708f6fa1ed65114d68d2343e7c2f1d" {
        return Err(format!("A.8 session key {}", hex::encode(&sk)));
    }
    let inner = seipd_v2_decrypt(&msg[1].body, &sk).map_err(|e| format!("A.8 seipd {e:?}"))?;
    let ip = deframe(&inner)?;
    if literal_data(&ip[0].body) != Some(b"Hello, world!") {
        return Err("A.8 plaintext".into());
    }

    // A.9-A.11 SKESK v6 + SEIPDv2, password "password"
    for (name, a) in [("eax", EAX), ("ocb", OCB), ("gcm", GCM)] {
        let m = deframe(&dearmor(a)?)?;
        let sk = skesk_v6_decrypt(&m[0].body, b"password")
            .ok_or(format!("{name} skesk unsupported"))?
            .map_err(|_| format!("{name} skesk auth"))?;
        let inner = seipd_v2_decrypt(&m[1].body, &sk).map_err(|e| format!("{name} seipd {e:?}"))?;
        let ip = deframe(&inner)?;
        if literal_data(&ip[0].body) != Some(b"Hello, world!") {
            return Err(format!("{name} plaintext"));
        }
    }
    // A.12 Argon2 SKESK v4 + SEIPDv1 (2 GiB of memory, ~3 s each: only in the full self-check,
    // which the driver runs once per reference source revision)
    for a in ARGON.iter().take(if full { 3 } else { 0 }) {
        let m = deframe(&dearmor(a)?)?;
        let (alg, sk) = skesk_v4_decrypt(&m[0].body, b"password").ok_or("argon2 skesk")?;
        let inner = seipd_v1_decrypt(alg, &sk, &m[1].body[1..]).map_err(|e| format!("argon2 seipd {e:?}"))?;
        let ip = deframe(&inner)?;
        if literal_data(&ip[0].body) != Some(b"Hello, world!") {
            return Err("argon2 plaintext".into());
        }
    }
    Ok(())
}
