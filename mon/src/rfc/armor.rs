//! Reference: CRC-24, base64, ASCII armor framing, cleartext signature framework helpers.

pub fn crc24(data: &[u8]) -> u32 {
    let mut crc: u32 = 0xB704CE;
    for b in data {
        crc ^= (*b as u32) << 16;
        for _ in 0..8 {
            crc <<= 1;
            if crc & 0x1000000 != 0 {
                crc ^= 0x1864CFB;
            }
        }
    }
    crc & 0xFFFFFF
}

const B64: &[u8; 64] = b"ABCDEFGHIJKLMNOPQRSTUVWXYZabcdefghijklmnopqrstuvwxyz0123456789+/";

pub fn b64_encode(data: &[u8]) -> String {
    let mut out = String::with_capacity(data.len().div_ceil(3) * 4);
    for c in data.chunks(3) {
        let b0 = c[0] as u32;
        let b1 = *c.get(1).unwrap_or(&0) as u32;
        let b2 = *c.get(2).unwrap_or(&0) as u32;
        let v = b0 << 16 | b1 << 8 | b2;
        out.push(B64[(v >> 18 & 63) as usize] as char);
        out.push(B64[(v >> 12 & 63) as usize] as char);
        if c.len() > 1 {
            out.push(B64[(v >> 6 & 63) as usize] as char);
        } else {
            out.push('=');
        }
        if c.len() > 2 {
            out.push(B64[(v & 63) as usize] as char);
        } else {
            out.push('=');
        }
    }
    out
}

/// Strict decode of canonical base64 (no whitespace). None if not canonical.
pub fn b64_decode_strict(s: &str) -> Option<Vec<u8>> {
    let b = s.as_bytes();
    if b.len() % 4 != 0 {
        return None;
    }
    let val = |c: u8| -> Option<u32> { B64.iter().position(|x| *x == c).map(|p| p as u32) };
    let mut out = Vec::with_capacity(b.len() / 4 * 3);
    let n = b.len() / 4;
    for (i, q) in b.chunks(4).enumerate() {
        let last = i == n - 1;
        let pad = if last {
            q.iter().rev().take_while(|c| **c == b'=').count()
        } else {
            0
        };
        if pad > 2 {
            return None;
        }
        let mut v = 0u32;
        for (j, c) in q.iter().enumerate() {
            let x = if j >= 4 - pad { 0 } else { val(*c)? };
            v = v << 6 | x;
        }
        out.push((v >> 16) as u8);
        if pad < 2 {
            out.push((v >> 8) as u8);
        }
        if pad < 1 {
            out.push(v as u8);
        }
        // canonical: the unused bits must be zero
        if pad == 2 && (v >> 8) & 0xFF != 0 || pad >= 1 && v & 0xFF != 0 {
            return None;
        }
        if pad == 2 && v & 0xFFFF != 0 {
            return None;
        }
    }
    Some(out)
}

/// Reference armor encoder. `typ` is the label between the dashes (e.g. "PGP MESSAGE").
pub fn armor_encode(
    typ: &str,
    headers: &[(String, String)],
    data: &[u8],
    with_crc: bool,
    line_end: &str,
) -> String {
    let mut out = String::new();
    out.push_str("-----BEGIN ");
    out.push_str(typ);
    out.push_str("-----");
    out.push_str(line_end);
    for (k, v) in headers {
        out.push_str(k);
        out.push_str(": ");
        out.push_str(v);
        out.push_str(line_end);
    }
    out.push_str(line_end);
    let b64 = b64_encode(data);
    for l in b64.as_bytes().chunks(64) {
        out.push_str(std::str::from_utf8(l).unwrap());
        out.push_str(line_end);
    }
    if with_crc {
        let c = crc24(data);
        out.push('=');
        out.push_str(&b64_encode(&[(c >> 16) as u8, (c >> 8) as u8, c as u8]));
        out.push_str(line_end);
    }
    out.push_str("-----END ");
    out.push_str(typ);
    out.push_str("-----");
    out.push_str(line_end);
    out
}

#[derive(Debug, Clone, PartialEq, Eq)]
pub struct ParsedArmor {
    pub typ: String,
    pub headers: Vec<(String, String)>,
    pub body_lines: Vec<String>,
    pub data: Vec<u8>,
    pub crc: Option<u32>,
    pub rest: String,
}

/// Strict reference parser of the *emitted* form: LF line endings, one blank separator line,
/// body lines, optional =CRC line, END line. Errors are strings.
pub fn armor_parse_strict(s: &str) -> Result<ParsedArmor, String> {
    let mut lines = s.split('\n');
    let first = lines.next().ok_or("empty")?;
    let typ = first
        .strip_prefix("-----BEGIN ")
        .and_then(|r| r.strip_suffix("-----"))
        .ok_or_else(|| format!("bad begin line {first:?}"))?
        .to_string();
    let mut headers = vec![];
    loop {
        let l = lines.next().ok_or("eof in headers")?;
        if l.is_empty() {
            break;
        }
        let (k, v) = l.split_once(": ").ok_or_else(|| format!("bad header line {l:?}"))?;
        headers.push((k.to_string(), v.to_string()));
    }
    let mut body_lines = vec![];
    let mut crc = None;
    let end_line = format!("-----END {typ}-----");
    let mut found_end = false;
    let mut rest = String::new();
    for l in lines.by_ref() {
        if l == end_line {
            found_end = true;
            break;
        }
        if let Some(c) = l.strip_prefix('=') {
            if crc.is_some() {
                return Err("two crc lines".into());
            }
            let d = b64_decode_strict(c).ok_or("bad crc b64")?;
            if d.len() != 3 {
                return Err("crc len".into());
            }
            crc = Some((d[0] as u32) << 16 | (d[1] as u32) << 8 | d[2] as u32);
            continue;
        }
        if crc.is_some() {
            return Err("body after crc".into());
        }
        body_lines.push(l.to_string());
    }
    if !found_end {
        return Err("no end line".into());
    }
    let r: Vec<&str> = lines.collect();
    rest.push_str(&r.join("\n"));
    let joined: String = body_lines.concat();
    let data = b64_decode_strict(&joined).ok_or("body not canonical base64")?;
    Ok(ParsedArmor {
        typ,
        headers,
        body_lines,
        data,
        crc,
        rest,
    })
}

// ---------------------------------------------------------------------------------------
// Cleartext signature framework (RFC 9580 section 7)

/// Dash-escape: every line starting with '-' gets "- " prefixed. Lines are separated by LF
/// (a CR before the LF stays part of the line).
pub fn dash_escape(text: &str) -> String {
    let mut out = String::new();
    for (i, line) in text.split('\n').enumerate() {
        if i > 0 {
            out.push('\n');
        }
        if line.starts_with('-') {
            out.push_str("- ");
        }
        out.push_str(line);
    }
    out
}

/// The signed form of a cleartext: per line (split at LF; an optional CR before the LF belongs
/// to the line ending) remove trailing SP / TAB, join with CRLF. No trailing line ending is
/// added; a final line ending present in `text` is kept as an (empty) last line.
pub fn csf_signed_form(text: &str) -> String {
    let mut out = String::new();
    let lines: Vec<&str> = text.split('\n').collect();
    let n = lines.len();
    for (i, line) in lines.iter().enumerate() {
        let is_last = i == n - 1;
        // CR belonging to the line ending
        let l = if !is_last {
            line.strip_suffix('\r').unwrap_or(line)
        } else {
            line
        };
        let l = l.trim_end_matches([' ', '\t']);
        out.push_str(l);
        if !is_last {
            out.push_str("\r\n");
        }
    }
    out
}

#[derive(Debug, Clone, PartialEq, Eq)]
pub struct ParsedCsf {
    pub hashes: Vec<String>,
    /// text as it appears (dash-escaped), lines joined with '\n', without the line ending that
    /// precedes the signature armor
    pub escaped_text: String,
    /// dash-unescaped text
    pub text: String,
    pub sig_armor: String,
}

/// Reference splitter of a cleartext signed document: header line, Hash headers, blank line,
/// dash-escaped text up to the first line that starts with five dashes (which must be the
/// BEGIN PGP SIGNATURE line), then the signature armor.
pub fn csf_parse(doc: &str) -> Result<ParsedCsf, String> {
    let mut lines = doc.split('\n').peekable();
    let first = lines.next().ok_or("empty")?;
    if first.trim_end_matches('\r') != "-----BEGIN PGP SIGNED MESSAGE-----" {
        return Err(format!("bad first line {first:?}"));
    }
    let mut hashes = vec![];
    loop {
        let l = lines.next().ok_or("eof in headers")?;
        let l = l.trim_end_matches('\r');
        if l.trim().is_empty() {
            break;
        }
        let v = l
            .strip_prefix("Hash: ")
            .ok_or_else(|| format!("non-hash header {l:?}"))?;
        for h in v.split(',') {
            hashes.push(h.trim().to_string());
        }
    }
    let mut text_lines: Vec<&str> = vec![];
    let mut sig_lines: Vec<&str> = vec![];
    let mut in_sig = false;
    for l in lines {
        if in_sig {
            sig_lines.push(l);
            continue;
        }
        if l.starts_with("-----") {
            if l.trim_end_matches('\r') != "-----BEGIN PGP SIGNATURE-----" {
                return Err(format!("text section terminated by {l:?}"));
            }
            in_sig = true;
            sig_lines.push(l);
            continue;
        }
        text_lines.push(l);
    }
    if !in_sig {
        return Err("no signature".into());
    }
    let escaped_text = text_lines.join("\n");
    let mut text = String::new();
    for (i, l) in text_lines.iter().enumerate() {
        if i > 0 {
            text.push('\n');
        }
        if let Some(r) = l.strip_prefix("- ") {
            text.push_str(r);
        } else if l.starts_with('-') {
            return Err(format!("unescaped dash line {l:?}"));
        } else {
            text.push_str(l);
        }
    }
    Ok(ParsedCsf {
        hashes,
        escaped_text,
        text,
        sig_armor: sig_lines.join("\n"),
    })
}
