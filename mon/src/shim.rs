//! I/O shims: schedule-driven readers/writers with fault injection and call logs, consumer
//! patterns, a counting allocator.

use std::alloc::{GlobalAlloc, Layout, System};
use std::cell::RefCell;
use std::io::{self, BufRead, Read, Write};
use std::rc::Rc;
use std::sync::atomic::{AtomicBool, AtomicU64, Ordering};

use rand::{Rng, SeedableRng};
use rand_chacha::ChaCha8Rng;

/// How a source hands out its bytes.
#[derive(Clone, Debug)]
pub enum Sched {
    /// as much as the caller asks for
    All,
    /// at most n bytes per call
    Fixed(usize),
    /// cyclic list of sizes
    Cycle(Vec<usize>),
    /// split exactly at these absolute offsets (sorted), otherwise as much as asked
    SplitAt(Vec<usize>),
    /// random sizes in 1..=max
    Random(u64, usize),
}

impl Sched {
    pub fn name(&self) -> String {
        match self {
            Sched::All => "all".into(),
            Sched::Fixed(n) => format!("fixed{n}"),
            Sched::Cycle(v) => format!("cycle{v:?}"),
            Sched::SplitAt(v) => format!("split{}", v.len()),
            Sched::Random(s, m) => format!("rand{s}/{m}"),
        }
    }
}

#[derive(Clone, Copy, Debug, PartialEq, Eq)]
pub enum FaultKind {
    Other,
    Interrupted,
    WouldBlock,
    UnexpectedEof,
}

impl FaultKind {
    fn make(self) -> io::Error {
        match self {
            FaultKind::Other => io::Error::other("injected fault"),
            FaultKind::Interrupted => io::Error::new(io::ErrorKind::Interrupted, "injected interrupt"),
            FaultKind::WouldBlock => io::Error::new(io::ErrorKind::WouldBlock, "injected wouldblock"),
            FaultKind::UnexpectedEof => {
                io::Error::new(io::ErrorKind::UnexpectedEof, "injected eof")
            }
        }
    }
}

#[derive(Clone, Copy, Debug)]
pub struct Fault {
    /// fail at this call index (0-based, counted over read/fill_buf calls resp. write/flush calls)
    pub at_call: usize,
    pub sticky: bool,
    pub kind: FaultKind,
}

#[derive(Default, Debug, Clone)]
pub struct IoLog {
    pub calls: usize,
    pub bytes: usize,
    pub faults_raised: usize,
    pub zero_returns: usize,
    pub calls_after_fault: usize,
    pub flushes: usize,
}

pub type LogRef = Rc<RefCell<IoLog>>;

pub fn new_log() -> LogRef {
    Rc::new(RefCell::new(IoLog::default()))
}

/// A `Read` + `BufRead` source driven by a schedule, with optional fault injection.
impl std::fmt::Debug for SchedReader {
    fn fmt(&self, f: &mut std::fmt::Formatter<'_>) -> std::fmt::Result {
        write!(f, "SchedReader({} bytes, at {}, {})", self.data.len(), self.pos, self.sched.name())
    }
}

pub struct SchedReader {
    data: Vec<u8>,
    pos: usize,
    sched: Sched,
    idx: usize,
    rng: ChaCha8Rng,
    fault: Option<Fault>,
    pub log: LogRef,
    // for BufRead: size of the window most recently handed out
    window: usize,
}

impl SchedReader {
    pub fn new(data: impl Into<Vec<u8>>, sched: Sched) -> Self {
        let seed = match &sched {
            Sched::Random(s, _) => *s,
            _ => 0,
        };
        SchedReader {
            data: data.into(),
            pos: 0,
            sched,
            idx: 0,
            rng: ChaCha8Rng::seed_from_u64(seed),
            fault: None,
            log: new_log(),
            window: 0,
        }
    }
    pub fn with_fault(mut self, f: Option<Fault>) -> Self {
        self.fault = f;
        self
    }
    pub fn with_log(mut self, log: LogRef) -> Self {
        self.log = log;
        self
    }

    fn next_size(&mut self, want: usize) -> usize {
        let remaining = self.data.len() - self.pos;
        let n = match &self.sched {
            Sched::All => want,
            Sched::Fixed(n) => (*n).min(want),
            Sched::Cycle(v) => {
                let n = v[self.idx % v.len()];
                self.idx += 1;
                n.min(want)
            }
            Sched::SplitAt(v) => {
                // next split offset > pos
                let next = v.iter().copied().find(|o| *o > self.pos);
                match next {
                    Some(o) => (o - self.pos).min(want),
                    None => want,
                }
            }
            Sched::Random(_, max) => {
                let m = (*max).max(1);
                self.rng.gen_range(1..=m).min(want)
            }
        };
        n.min(remaining)
    }

    fn check_fault(&mut self) -> io::Result<()> {
        let mut log = self.log.borrow_mut();
        let call = log.calls;
        log.calls += 1;
        if let Some(f) = self.fault {
            if call == f.at_call || (f.sticky && call > f.at_call) {
                log.faults_raised += 1;
                return Err(f.kind.make());
            }
            if call > f.at_call {
                log.calls_after_fault += 1;
            }
        }
        Ok(())
    }
}

impl Read for SchedReader {
    fn read(&mut self, buf: &mut [u8]) -> io::Result<usize> {
        self.check_fault()?;
        if buf.is_empty() {
            return Ok(0);
        }
        // a window handed out by fill_buf() and not yet consumed is served first
        let n = if self.window > 0 {
            let n = self.window.min(buf.len());
            self.window -= n;
            n
        } else {
            self.next_size(buf.len())
        };
        buf[..n].copy_from_slice(&self.data[self.pos..self.pos + n]);
        self.pos += n;
        let mut log = self.log.borrow_mut();
        log.bytes += n;
        if n == 0 {
            log.zero_returns += 1;
        }
        Ok(n)
    }
}

impl BufRead for SchedReader {
    fn fill_buf(&mut self) -> io::Result<&[u8]> {
        self.check_fault()?;
        if self.window == 0 {
            self.window = self.next_size(usize::MAX);
        }
        Ok(&self.data[self.pos..self.pos + self.window])
    }
    fn consume(&mut self, amt: usize) {
        let amt = amt.min(self.window);
        self.pos += amt;
        self.window -= amt;
        self.log.borrow_mut().bytes += amt;
    }
}

/// A `Write` sink driven by a schedule (short writes), with fault injection.
pub struct SchedWriter {
    pub out: Rc<RefCell<Vec<u8>>>,
    sched: Sched,
    idx: usize,
    rng: ChaCha8Rng,
    fault: Option<Fault>,
    pub log: LogRef,
}

impl SchedWriter {
    pub fn new(sched: Sched) -> Self {
        let seed = match &sched {
            Sched::Random(s, _) => *s,
            _ => 0,
        };
        SchedWriter {
            out: Rc::new(RefCell::new(Vec::new())),
            sched,
            idx: 0,
            rng: ChaCha8Rng::seed_from_u64(seed),
            fault: None,
            log: new_log(),
        }
    }
    pub fn with_fault(mut self, f: Option<Fault>) -> Self {
        self.fault = f;
        self
    }
    pub fn handle(&self) -> Rc<RefCell<Vec<u8>>> {
        self.out.clone()
    }
    fn check_fault(&mut self) -> io::Result<()> {
        let mut log = self.log.borrow_mut();
        let call = log.calls;
        log.calls += 1;
        if let Some(f) = self.fault {
            if call == f.at_call || (f.sticky && call > f.at_call) {
                log.faults_raised += 1;
                return Err(f.kind.make());
            }
            if call > f.at_call {
                log.calls_after_fault += 1;
            }
        }
        Ok(())
    }
}

impl Write for SchedWriter {
    fn write(&mut self, buf: &[u8]) -> io::Result<usize> {
        self.check_fault()?;
        if buf.is_empty() {
            return Ok(0);
        }
        let n = match &self.sched {
            Sched::All => buf.len(),
            Sched::Fixed(n) => (*n).min(buf.len()),
            Sched::Cycle(v) => {
                let n = v[self.idx % v.len()];
                self.idx += 1;
                n.min(buf.len())
            }
            Sched::SplitAt(_) => buf.len(),
            Sched::Random(_, max) => self.rng.gen_range(1..=(*max).max(1)).min(buf.len()),
        }
        .max(1);
        self.out.borrow_mut().extend_from_slice(&buf[..n]);
        self.log.borrow_mut().bytes += n;
        Ok(n)
    }
    fn flush(&mut self) -> io::Result<()> {
        // flush calls are not fault points (counted separately)
        self.log.borrow_mut().flushes += 1;
        Ok(())
    }
}

/// How a consumer drains a reader.
#[derive(Clone, Debug, PartialEq, Eq, Hash)]
pub enum Consume {
    ToEnd,
    Read(usize),
    ReadCycle(Vec<usize>),
    /// fill_buf + consume(min(k, len))
    Buf(usize),
    /// fill_buf + consume(all)
    BufAll,
    /// alternates read(k) and fill_buf/consume(k)
    Mixed(usize),
}

impl Consume {
    pub fn name(&self) -> String {
        format!("{self:?}")
    }
    pub fn all_basic() -> Vec<Consume> {
        vec![
            Consume::ToEnd,
            Consume::Read(1),
            Consume::Read(7),
            Consume::Read(4096),
            Consume::ReadCycle(vec![1, 13, 512, 3]),
            Consume::Buf(1),
            Consume::Buf(5),
            Consume::BufAll,
            Consume::Mixed(3),
        ]
    }
}

/// Result of draining: bytes released and the error, if any
pub struct Drained {
    pub data: Vec<u8>,
    pub err: Option<io::Error>,
}

/// Drains `r` with the pattern. Stops at first error (Interrupted errors are retried like std
/// does, at most 1000 times).
pub fn drain<R: BufRead>(r: &mut R, pat: &Consume) -> Drained {
    let mut out = Vec::new();
    let mut interrupts = 0;
    let mut step = 0usize;
    loop {
        let use_buf;
        let k;
        match pat {
            Consume::ToEnd => {
                return match r.read_to_end(&mut out) {
                    Ok(_) => Drained { data: out, err: None },
                    Err(e) => Drained { data: out, err: Some(e) },
                };
            }
            Consume::Read(n) => {
                use_buf = false;
                k = *n;
            }
            Consume::ReadCycle(v) => {
                use_buf = false;
                k = v[step % v.len()];
            }
            Consume::Buf(n) => {
                use_buf = true;
                k = *n;
            }
            Consume::BufAll => {
                use_buf = true;
                k = usize::MAX;
            }
            Consume::Mixed(n) => {
                use_buf = step % 2 == 1;
                k = *n;
            }
        }
        step += 1;
        if use_buf {
            match r.fill_buf() {
                Ok(b) => {
                    if b.is_empty() {
                        return Drained { data: out, err: None };
                    }
                    let n = k.min(b.len());
                    out.extend_from_slice(&b[..n]);
                    r.consume(n);
                }
                Err(e) if e.kind() == io::ErrorKind::Interrupted && interrupts < 1000 => {
                    interrupts += 1;
                }
                Err(e) => return Drained { data: out, err: Some(e) },
            }
        } else {
            let mut buf = vec![0u8; k.max(1)];
            match r.read(&mut buf) {
                Ok(0) => return Drained { data: out, err: None },
                Ok(n) => out.extend_from_slice(&buf[..n]),
                Err(e) if e.kind() == io::ErrorKind::Interrupted && interrupts < 1000 => {
                    interrupts += 1;
                }
                Err(e) => return Drained { data: out, err: Some(e) },
            }
        }
    }
}

/// Same for plain `Read` (no BufRead patterns; those fall back to read(k))
pub fn drain_read<R: Read>(r: &mut R, pat: &Consume) -> Drained {
    let mut br = PlainAsBuf { inner: r, buf: Vec::new(), pos: 0 };
    match pat {
        Consume::ToEnd => {
            let mut out = Vec::new();
            match br.inner.read_to_end(&mut out) {
                Ok(_) => Drained { data: out, err: None },
                Err(e) => Drained { data: out, err: Some(e) },
            }
        }
        Consume::Buf(k) | Consume::Mixed(k) => drain(&mut br, &Consume::Read(*k)),
        Consume::BufAll => drain(&mut br, &Consume::Read(8192)),
        p => drain(&mut br, p),
    }
}

struct PlainAsBuf<'a, R: Read> {
    inner: &'a mut R,
    buf: Vec<u8>,
    pos: usize,
}
impl<R: Read> Read for PlainAsBuf<'_, R> {
    fn read(&mut self, b: &mut [u8]) -> io::Result<usize> {
        self.inner.read(b)
    }
}
impl<R: Read> BufRead for PlainAsBuf<'_, R> {
    fn fill_buf(&mut self) -> io::Result<&[u8]> {
        if self.pos >= self.buf.len() {
            self.buf.resize(4096, 0);
            let n = self.inner.read(&mut self.buf)?;
            self.buf.truncate(n);
            self.pos = 0;
        }
        Ok(&self.buf[self.pos..])
    }
    fn consume(&mut self, amt: usize) {
        self.pos += amt;
    }
}

/// All compositions of n into positive parts, as split offsets; `mask` bit i set = split after byte i+1.
pub fn composition_splits(n: usize, mask: u64) -> Vec<usize> {
    let mut v = vec![];
    for i in 0..n.saturating_sub(1) {
        if mask >> i & 1 == 1 {
            v.push(i + 1);
        }
    }
    v
}

/// Split data into chunks per split offsets
pub fn chunks_by_splits<'a>(data: &'a [u8], splits: &[usize]) -> Vec<&'a [u8]> {
    let mut out = vec![];
    let mut prev = 0;
    for s in splits {
        out.push(&data[prev..*s]);
        prev = *s;
    }
    out.push(&data[prev..]);
    out
}

// ------------------------------------------------------------------------------------------
// counting allocator

pub struct CountingAlloc;

static TRACK: AtomicBool = AtomicBool::new(false);
static CUR: AtomicU64 = AtomicU64::new(0);
static PEAK: AtomicU64 = AtomicU64::new(0);
static TOTAL: AtomicU64 = AtomicU64::new(0);
static COUNT: AtomicU64 = AtomicU64::new(0);
static MAX_SINGLE: AtomicU64 = AtomicU64::new(0);

unsafe impl GlobalAlloc for CountingAlloc {
    unsafe fn alloc(&self, l: Layout) -> *mut u8 {
        let p = System.alloc(l);
        if TRACK.load(Ordering::Relaxed) && !p.is_null() {
            on_alloc(l.size() as u64);
        }
        p
    }
    unsafe fn dealloc(&self, p: *mut u8, l: Layout) {
        System.dealloc(p, l);
        if TRACK.load(Ordering::Relaxed) {
            on_free(l.size() as u64);
        }
    }
    unsafe fn alloc_zeroed(&self, l: Layout) -> *mut u8 {
        let p = System.alloc_zeroed(l);
        if TRACK.load(Ordering::Relaxed) && !p.is_null() {
            on_alloc(l.size() as u64);
        }
        p
    }
    unsafe fn realloc(&self, p: *mut u8, l: Layout, new_size: usize) -> *mut u8 {
        let q = System.realloc(p, l, new_size);
        if TRACK.load(Ordering::Relaxed) && !q.is_null() {
            on_free(l.size() as u64);
            on_alloc(new_size as u64);
        }
        q
    }
}

fn on_alloc(n: u64) {
    let cur = CUR.fetch_add(n, Ordering::Relaxed) + n;
    PEAK.fetch_max(cur, Ordering::Relaxed);
    TOTAL.fetch_add(n, Ordering::Relaxed);
    COUNT.fetch_add(1, Ordering::Relaxed);
    MAX_SINGLE.fetch_max(n, Ordering::Relaxed);
}
fn on_free(n: u64) {
    // saturating: frees of blocks allocated before tracking started
    let mut cur = CUR.load(Ordering::Relaxed);
    loop {
        let new = cur.saturating_sub(n);
        match CUR.compare_exchange_weak(cur, new, Ordering::Relaxed, Ordering::Relaxed) {
            Ok(_) => break,
            Err(c) => cur = c,
        }
    }
}

#[derive(Debug, Clone, Copy, Default)]
pub struct AllocStats {
    pub peak: u64,
    pub total: u64,
    pub count: u64,
    pub max_single: u64,
    pub leaked: u64,
}

/// Measures allocations of `f` (process wide; run single threaded).
pub fn measure_alloc<T>(f: impl FnOnce() -> T) -> (T, AllocStats) {
    CUR.store(0, Ordering::SeqCst);
    PEAK.store(0, Ordering::SeqCst);
    TOTAL.store(0, Ordering::SeqCst);
    COUNT.store(0, Ordering::SeqCst);
    MAX_SINGLE.store(0, Ordering::SeqCst);
    TRACK.store(true, Ordering::SeqCst);
    let r = f();
    TRACK.store(false, Ordering::SeqCst);
    let st = AllocStats {
        peak: PEAK.load(Ordering::SeqCst),
        total: TOTAL.load(Ordering::SeqCst),
        count: COUNT.load(Ordering::SeqCst),
        max_single: MAX_SINGLE.load(Ordering::SeqCst),
        leaked: CUR.load(Ordering::SeqCst),
    };
    (r, st)
}
