#!/bin/sh
# Offline setup: copy the lock file of /repo (all harness dependencies are in it) and build the harness.
set -e
cd "$(dirname "$0")"
export CARGO_NET_OFFLINE=true
cp /repo/Cargo.lock mon/Cargo.lock
RUSTFLAGS="--cfg rpgp_verif" CARGO_TARGET_DIR=/verif/target/chk cargo build --release --offline --manifest-path mon/Cargo.toml
mkdir -p target/tmp target/keys evidence
# pre-generate the slow (RSA/DSA) zoo keys so that checks do not pay for them
./target/chk/release/mon ZOO --tier quick --seed 1 --shard 0 --nshards 1 --out target/tmp/zoo.json >/dev/null 2>&1 || true
./target/chk/release/mon SELFCHECK | grep -q MON-SELFCHECK-OK
echo setup done
